"""Obligation runner: explores every case of every obligation of a property with the symx engine on 16 cores,
decides each completed path with the solver, replays counterexamples against the unmodified code, matches them
against known_findings.json and writes the evidence file."""
import os, sys, json, time, hashlib, subprocess, traceback, importlib, multiprocessing, concurrent.futures as cf
import z3
from . import core, loader
from .core import SymInt, SymBool, SymBytes, Inconclusive, Control, Engine

VERIF = os.path.dirname(os.path.dirname(os.path.abspath(__file__)))
REPO = loader.REPO
EXIT_OK, EXIT_VIOLATION, EXIT_INCONCLUSIVE, EXIT_ENGINE = 0, 1, 2, 3


class Obligation:
  def __init__(self, name, fn, cases, desc='', width=80, split=24, max_decisions=4000, path_seconds=240,
               conc_cap=300, witnesses=(), solver_timeout_ms=150000, mode='bv', max_paths=10**9):
    self.name = name; self.fn = fn; self.cases = list(cases); self.desc = desc; self.width = width
    self.split = split; self.max_decisions = max_decisions; self.path_seconds = path_seconds
    self.conc_cap = conc_cap; self.witnesses = tuple(witnesses); self.solver_timeout_ms = solver_timeout_ms
    self.mode = mode; self.max_paths = max_paths


# ------------------------------------------------------------------------------------------------
class Ctx:
  """What a harness sees.  sym=True: values are proxies; sym=False: values come from a model (replay)."""
  def __init__(self, eng=None, model=None):
    self.sym = eng is not None
    self.eng = eng
    self.model = model or {}
    self.clauses = []
    self.witnessed = set()
    self.notes = {}
    self.missing = []
    self.inputs = {}

  def int(self, name, lo, hi):
    if self.sym:
      v = self.eng.fresh_int(name, lo, hi)
    else:
      if name in self.model: v = self.model[name]
      else: v = lo; self.missing.append(name)
      if not (lo <= v <= hi): raise ReplayMismatch("input %s=%r outside [%d,%d]" % (name, v, lo, hi))
    self.inputs[name] = v
    return v

  def bool(self, name):
    if self.sym: v = self.eng.fresh_bool(name)
    else: v = bool(self.model.get(name, False))
    self.inputs[name] = v
    return v

  def bytes(self, name, n):
    if self.sym: v = self.eng.fresh_bytes(name, n)
    else:
      v = bytes(self.model.get(name, [0] * n))
      if len(v) != n: raise ReplayMismatch("input %s length" % name)
    self.inputs[name] = v
    return v

  def assume(self, c):
    if self.sym: self.eng.assume(c)
    elif not c: raise ReplayMismatch("assumption false in replay")

  def check(self, name, cond):
    self.clauses.append((name, cond))

  def witness(self, name):
    self.witnessed.add(name)

  def note(self, k, v):
    self.notes[k] = v

  def pox(self, modname):
    return importlib.import_module(modname)

  # helpers usable in both modes
  And = staticmethod(core.And); Or = staticmethod(core.Or); Not = staticmethod(core.Not)
  Implies = staticmethod(core.Implies); Iff = staticmethod(core.Iff); Ite = staticmethod(core.Ite)
  Eq = staticmethod(core.Eq)


class ReplayMismatch(Exception):
  pass


def exc_signature(ex):
  """exception type + innermost POX function (no line numbers: robust to unrelated edits)"""
  tb = ex.__traceback__
  where = None
  while tb is not None:
    fn = tb.tb_frame.f_code.co_filename
    if os.path.abspath(fn).startswith(REPO + os.sep):
      # (which function - and, in a mutual recursion of several parsers, which file - runs out of stack first is incidental: name the package only)
      where = "%s:%s" % (os.path.relpath(fn, REPO), tb.tb_frame.f_code.co_name) if not isinstance(ex, RecursionError) else os.path.dirname(os.path.relpath(fn, REPO)) + '/*'
    tb = tb.tb_next
  return "exc:%s@%s" % (type(ex).__name__, where or 'harness')


def _jsonable(v):
  if isinstance(v, dict): return {str(k): _jsonable(x) for k, x in v.items()}
  if isinstance(v, (list, tuple)): return [_jsonable(x) for x in v]
  if isinstance(v, bytes): return list(v)
  if isinstance(v, (int, str, bool, float)) or v is None: return v
  return repr(v)


# ------------------------------------------------------------------------------------------------
_KNOWN = None
def known_findings():
  global _KNOWN
  if _KNOWN is None:
    p = os.path.join(VERIF, 'known_findings.json')
    _KNOWN = json.load(open(p)).get('findings', []) if os.path.exists(p) else []
  return _KNOWN


def _eval_where(expr, inputs):
  env = {'And': core.And, 'Or': core.Or, 'Not': core.Not}
  env.update(inputs)
  return eval(expr, {'__builtins__': {'len': len, 'int': int}}, env)


def run_task(prop, obl_index, case_index, stack, deadline, slice_s=None):
  """worker: explore (part of) one case. Returns a result dict (always picklable)."""
  mod = importlib.import_module('props.' + prop)
  obls_ = mod.obligations(os.environ.get('VERIF_TIER', 'quick'))
  only_ = os.environ.get('VERIF_ONLY')
  if only_: obls_ = [o for o in obls_ if o.name in only_.split(',')]
  obl = obls_[obl_index]
  case = obl.cases[case_index]
  core.set_width(obl.width); core.set_mode(obl.mode)
  eng = Engine(solver_timeout_ms=obl.solver_timeout_ms, max_decisions=obl.max_decisions,
               path_seconds=obl.path_seconds, conc_cap=obl.conc_cap)
  res = dict(obl=obl.name, obl_index=obl_index, case_index=case_index, paths=0, forked=0, queries=0,
             solver_s=0.0, concretisations=0, failures=[], known=[], witnesses=[], samples=[], leftover=[],
             status='ok', clauses_checked=0, clauses_symbolic=0, exc_paths={}, wall_s=0.0, nontrivial=0)
  known = [k for k in known_findings() if k.get('property') == prop and k.get('obligation') == obl.name]
  holder = {}
  t0 = time.time()

  def fn(eng_):
    ctx = Ctx(eng_)
    holder['ctx'] = ctx
    obl.fn(ctx, **case)

  def on_path(eng_, outcome):
    ctx = holder['ctx']
    res['witnesses'] = sorted(set(res['witnesses']) | ctx.witnessed)
    fails = []   # (signature, extra z3 condition or None)
    if outcome[0] == 'exc':
      sig = exc_signature(outcome[1])
      res['exc_paths'][sig] = res['exc_paths'].get(sig, 0) + 1
      if eng_.decisions: res['nontrivial'] += 1
      fails.append((sig, None, ''.join(traceback.format_exception(outcome[1])[-6:])))
    else:
      sym = []
      if eng_.decisions or any(isinstance(c, (SymBool, SymInt)) for _, c in ctx.clauses): res['nontrivial'] += 1
      for name, cond in ctx.clauses:
        res['clauses_checked'] += 1
        if isinstance(cond, SymBool):
          res['clauses_symbolic'] += 1
          sym.append((name, z3.Not(cond.e)))
        elif isinstance(cond, SymInt):
          res['clauses_symbolic'] += 1
          sym.append((name, cond.e == 0))
        elif not cond:
          fails.append(('clause:' + name, None, ''))
      # one query for the whole path (PC and some clause violated); per-clause queries only when that is satisfiable
      if sym and eng_.check(z3.Or(*[ne for _, ne in sym]) if len(sym) > 1 else sym[0][1]):
        for name, ne in sym:
          if eng_.check(ne): fails.append(('clause:' + name, ne, ''))
    for sig, ne, detail in fails:
      ks = [k for k in known if k.get('signature') == sig or (k.get('signature_prefix') and sig.startswith(k['signature_prefix']))]
      extra = [ne] if ne is not None else []
      is_known = False
      if ks:
        if any(not k.get('where') for k in ks): is_known = True
        else:
          conds = []
          for k in ks:
            w = _eval_where(k['where'], ctx.inputs)
            conds.append(w.e if isinstance(w, SymBool) else z3.BoolVal(bool(w)))
          if not eng_.check(*(extra + [z3.Not(c) for c in conds])): is_known = True
        if is_known:
          eng_.check(*extra)
          res['known'].append(dict(signature=sig, ids=[k.get('id') for k in ks], model=_jsonable(eng_.model_values())))
          continue
        extra = extra + [z3.Not(c) for c in conds]
      if not eng_.check(*extra): continue
      res['failures'].append(dict(signature=sig, model=_jsonable(eng_.model_values()), detail=detail,
                                  notes=_jsonable(ctx.notes)))
    if len(res['samples']) < 3 and (eng_.path_forks or not res['samples']):
      eng_.check()
      res['samples'].append(dict(inputs=_jsonable(eng_.model_values()), decisions=len(eng_.decisions),
                                 notes=_jsonable(ctx.notes),
                                 outcome=outcome[0] if outcome[0] == 'ok' else exc_signature(outcome[1])))

  try:
    left = eng.explore(fn, on_path, stack=stack, split_at=obl.split, deadline=deadline,
                       max_paths=obl.max_paths, slice_until=(time.time() + slice_s) if slice_s else None)
    res['leftover'] = left
  except Inconclusive as e:
    res['status'] = 'inconclusive'; res['reason'] = str(e)
  except core.PathBudget as e:
    res['status'] = 'inconclusive'; res['reason'] = 'path budget: %s' % e
    try: res['budget_model'] = _jsonable(eng.model_values()) if eng.check() else None
    except Exception: pass
  except Exception as e:
    res['status'] = 'engine-error'; res['reason'] = ''.join(traceback.format_exception(e))
  res['paths'] = eng.paths; res['forked'] = eng.forks; res['queries'] = eng.solver_calls
  res['solver_s'] = eng.solver_time; res['concretisations'] = eng.concretisations
  res['wall_s'] = time.time() - t0
  if len(res['failures']) > 5: res['failures'] = res['failures'][:5]
  if len(res['known']) > 5:
    res['known_count'] = len(res['known']); res['known'] = res['known'][:5]
  return res


# ------------------------------------------------------------------------------------------------
def replay_file(path):
  """concrete re-execution against the unmodified code. Returns list of failure signatures."""
  rec = json.load(open(path))
  os.environ['VERIF_TIER'] = rec.get('tier', 'quick')
  loader.install(rewrite=False)
  sys.path.insert(0, VERIF)
  mod = importlib.import_module('props.' + rec['property'])
  obl = [o for o in mod.obligations(rec.get('tier', 'quick')) if o.name == rec['obligation']][0]
  ctx = Ctx(None, rec['model'])
  sigs = []
  try:
    obl.fn(ctx, **rec['case'])
  except ReplayMismatch as e:
    return ['mismatch:%s' % e]
  except Exception as e:
    sigs.append(exc_signature(e))
    traceback.print_exc()
    return sigs
  for name, cond in ctx.clauses:
    if not cond: sigs.append('clause:' + name)
  return sigs


def do_replay(path):
  sigs = replay_file(path)
  rec = json.load(open(path))
  if rec.get('signature') in sigs:
    print("REPRODUCED property=%s obligation=%s signatures=%s" % (rec['property'], rec['obligation'], sigs))
    return EXIT_VIOLATION
  print("NOT-REPRODUCED property=%s obligation=%s %s" % (rec['property'], rec['obligation'], sigs))
  return EXIT_OK


def _spawn_replay(prop, path):
  p = subprocess.run([sys.executable, '-m', 'symx.main', prop, '--replay', path], cwd=VERIF,
                     capture_output=True, text=True, timeout=600)
  return p.returncode, (p.stdout + p.stderr)


# ------------------------------------------------------------------------------------------------
def run_property(prop, tier, seed=0, budget_s=None, jobs=None, only=None, slice_s=3.0):
  t0 = time.time()
  os.environ['VERIF_TIER'] = tier
  sys.path.insert(0, VERIF)
  loader.install(rewrite=True)
  mod = importlib.import_module('props.' + prop)
  obls = mod.obligations(tier)
  if only: obls = [o for o in obls if o.name in only]
  if hasattr(mod, 'preload'): mod.preload()
  budget_s = budget_s or getattr(mod, 'BUDGET', {}).get(tier, 600 if tier == 'quick' else 3600)
  deadline = t0 + budget_s
  jobs = jobs or int(os.environ.get('VERIF_JOBS', os.cpu_count() or 4))
  mpctx = multiprocessing.get_context('fork')
  agg = {}
  for oi, o in enumerate(obls):
    agg[o.name] = dict(desc=o.desc, cases=len(o.cases), tasks=0, paths=0, forked=0, nontrivial=0, queries=0, solver_s=0.0,
                       concretisations=0, clauses_checked=0, clauses_symbolic=0, witnesses=set(), samples=[],
                       status='ok', reasons=[], exc_paths={}, known=0, cpu_s=0.0)
  failures = []; knowns = []; engine_errors = []; inconclusive = []; percase = {}
  with cf.ProcessPoolExecutor(max_workers=jobs, mp_context=mpctx) as ex:
    pending = set()
    for oi, o in enumerate(obls):
      for ci in range(len(o.cases)):
        flt = os.environ.get('VERIF_CASE_FILTER')       # development aid: only cases whose repr contains the text (the run is then marked inconclusive)
        if flt and flt not in repr(o.cases[ci]): continue
        pending.add(ex.submit(run_task, prop, oi, ci, None, deadline, slice_s))
    if os.environ.get('VERIF_CASE_FILTER'): inconclusive.append('case filter active: not a full run')
    while pending:
      done, pending = cf.wait(pending, return_when=cf.FIRST_COMPLETED)
      for fut in done:
        try:
          r = fut.result()
        except Exception as e:
          engine_errors.append("worker died: %r" % (e,)); continue
        a = agg[r['obl']]
        a['tasks'] += 1
        percase[(r['obl'], r['case_index'])] = percase.get((r['obl'], r['case_index']), 0) + r['paths']
        for k in ('paths', 'forked', 'queries', 'solver_s', 'concretisations', 'clauses_checked', 'clauses_symbolic', 'nontrivial'):
          a[k] += r[k]
        a['cpu_s'] += r['wall_s']
        a['witnesses'] |= set(r['witnesses'])
        for s, n in r['exc_paths'].items(): a['exc_paths'][s] = a['exc_paths'].get(s, 0) + n
        if len(a['samples']) < 3:
          for s in r['samples'][:1]:
            s = dict(s); s['case'] = _jsonable(obls[r['obl_index']].cases[r['case_index']]); a['samples'].append(s)
        a['known'] += r.get('known_count', len(r['known']))
        for k in r['known']: knowns.append((r, k))
        for f in r['failures']: failures.append((r, f))
        if r['status'] == 'inconclusive':
          a['status'] = 'inconclusive'; a['reasons'].append(r.get('reason'))
          inconclusive.append((r['obl'], r['case_index'], r.get('reason'), r.get('budget_model')))
        elif r['status'] == 'engine-error':
          a['status'] = 'engine-error'; engine_errors.append(r.get('reason'))
        left = r['leftover']
        if failures and os.environ.get('VERIF_STOP_EARLY'):
          # seed-matrix aid: a candidate violation is in hand - do not explore further (the run is then not a full run; the candidate is still
          # replayed on the unmodified code before anything is reported)
          for p_ in list(pending):
            if p_.cancel(): pending.discard(p_)
          if 'stopped early after the first failing path (VERIF_STOP_EARLY)' not in inconclusive: inconclusive.append('stopped early after the first failing path (VERIF_STOP_EARLY)')
          continue
        # hand out subtrees one by one while workers are idle, else in chunks (less re-execution overhead)
        chunk = 1 if len(pending) < 2 * jobs else max(1, len(left) // 4)
        for i in range(0, len(left), chunk):
          pending.add(ex.submit(run_task, prop, r['obl_index'], r['case_index'], left[i:i + chunk], deadline, slice_s))
  # ---- witnesses (vacuity guard)
  missing_w = []
  for o in obls:
    for w in o.witnesses:
      if w not in agg[o.name]['witnesses']: missing_w.append("%s:%s" % (o.name, w))
  # ---- replay candidates
  os.makedirs(os.path.join(VERIF, 'replays'), exist_ok=True)
  violations = []; spurious = []
  seen = set()
  tries = {}
  for r, f in failures:
    key = (r['obl'], f['signature'])
    if key in seen: continue
    tries[key] = tries.get(key, 0) + 1
    if tries[key] > 3: continue              # at most 3 replay attempts per failure signature
    seen.add(key)
    o = obls[r['obl_index']]
    rec = dict(property=prop, obligation=o.name, case=_jsonable(o.cases[r['case_index']]), model=f['model'],
               signature=f['signature'], tier=tier, detail=f.get('detail', ''), notes=f.get('notes'))
    h = hashlib.sha1(json.dumps(rec, sort_keys=True).encode()).hexdigest()[:10]
    path = os.path.join(VERIF, 'replays', '%s-%s-%s.json' % (prop, o.name, h))
    json.dump(rec, open(path, 'w'), indent=1, sort_keys=True)
    rc, out = _spawn_replay(prop, path)
    if rc == EXIT_VIOLATION: violations.append((path, f['signature'], o.name))
    else:
      spurious.append((path, f['signature'], out[-2000:])); seen.discard(key)
  known_lines = []
  seenk = set()
  for r, k in knowns:
    for kid in k['ids']:
      if kid in seenk: continue
      seenk.add(kid)
      ent = [x for x in known_findings() if x.get('id') == kid][0]
      known_lines.append("KNOWN-FINDING: property=%s %s [%s]" % (prop, ent.get('what', k['signature']), kid))
  # ---- verdict
  wall = time.time() - t0
  total_paths = sum(a['paths'] for a in agg.values())
  forked = sum(a['nontrivial'] for a in agg.values())
  discharged = sum(1 for o in obls if agg[o.name]['status'] == 'ok' and not any(v[2] == o.name for v in violations))
  for l in known_lines: print(l)
  status = EXIT_OK
  if engine_errors or spurious or missing_w:
    status = EXIT_ENGINE
    for e in engine_errors: print("ENGINE-ERROR %s" % (e,))
    for p_, s, out in spurious: print("ENGINE-ERROR spurious counterexample %s %s\n%s" % (s, p_, out))
    for w in missing_w: print("ENGINE-ERROR witness not reached: %s" % w)
  if inconclusive and status == EXIT_OK:
    status = EXIT_INCONCLUSIVE
  for i in inconclusive[:10]: print("INCONCLUSIVE %s case=%s %s %s" % (i[0], i[1], i[2], i[3] if i[3] else ''))
  if violations:
    status = EXIT_VIOLATION
    for p_, s, on in violations:
      print("VIOLATION property=%s replay=%s  (obligation %s, %s)" % (prop, p_, on, s))
  samples = []
  for o in obls:
    for s in agg[o.name]['samples'][:2]:
      samples.append(dict(obligation=o.name, **s))
  ev = dict(
    property_id=prop, tier=tier, seed=seed, level='other', wall_s=round(wall, 2), violations=len(violations),
    coverage=dict(
      explanation=getattr(mod, 'EXPLANATION', ''),
      technique="bounded symbolic execution of the real POX functions (symx, QF_BV/z3 %s); every completed path's "
                "negated assertion decided by the solver" % z3.get_version_string(),
      evaluations=total_paths, distinct_nontrivial=forked,
      rule="one evaluation = one feasible execution path of the harness through the real code, found by solver-decided "
           "forking; each path stands for all inputs satisfying its path condition; non-trivial = the path took at "
           "least one solver-decided branch on a symbolic value or its assertion was a symbolic term decided by the solver (distinct by "
           "construction: decision prefixes / cases differ)",
      samples=samples or [dict(note='no paths')],
      obligations=len(obls), discharged=discharged,
      per_obligation={o.name: dict(desc=o.desc, cases=len(o.cases), tasks=agg[o.name]['tasks'],
                                   paths=agg[o.name]['paths'], forked_paths=agg[o.name]['forked'],
                                   solver_queries=agg[o.name]['queries'], solver_s=round(agg[o.name]['solver_s'], 2),
                                   cpu_s=round(agg[o.name]['cpu_s'], 2),
                                   clauses_checked=agg[o.name]['clauses_checked'],
                                   clauses_decided_by_solver=agg[o.name]['clauses_symbolic'],
                                   concretisations=agg[o.name]['concretisations'],
                                   witnesses=sorted(agg[o.name]['witnesses']),
                                   exception_paths=agg[o.name]['exc_paths'],
                                   known_finding_paths=agg[o.name]['known'],
                                   status=agg[o.name]['status'], reasons=agg[o.name]['reasons'][:3]) for o in obls},
      solver_queries=sum(a['queries'] for a in agg.values()),
      solver_s=round(sum(a['solver_s'] for a in agg.values()), 2),
      functions_encoded=getattr(mod, 'FUNCTIONS', []),
      bounds=getattr(mod, 'BOUNDS', {}).get(tier, getattr(mod, 'BOUNDS', {})),
      outside_the_claim=getattr(mod, 'OUTSIDE', []),
      sources={os.path.relpath(k, REPO): v[:16] for k, v in sorted(loader.loaded_sources.items())},
      known_findings_observed=sorted(seenk),
      trusted_base=["CPython 3.12", "z3 " + z3.get_version_string(), "symx proxies/shims/AST rewrites (validated by symx.selftest)",
                    "reference oracles in props/%s.py" % prop],
      exhaustive=(status == EXIT_OK),
      checker_cmd="./check %s --tier %s" % (prop, tier),
      verdict={0: 'held within bounds', 1: 'violation', 2: 'inconclusive', 3: 'engine error'}[status],
    ),
    assumptions=getattr(mod, 'ASSUMPTIONS', []),
  )
  if not getattr(mod, 'NO_EVIDENCE', False):
    evdir = os.environ.get('VERIF_EVIDENCE_DIR') or os.path.join(VERIF, 'evidence')      # (seed trials write their evidence elsewhere)
    os.makedirs(evdir, exist_ok=True)
    json.dump(ev, open(os.path.join(evdir, prop + '.json'), 'w'), indent=1, sort_keys=True)
  print("%s tier=%s obligations=%d discharged=%d paths=%d forked=%d queries=%d solver_s=%.1f wall=%.1fs -> %s" % (
    prop, tier, len(obls), discharged, total_paths, forked, ev['coverage']['solver_queries'],
    ev['coverage']['solver_s'], wall, ev['coverage']['verdict']))
  for o in obls:
    a = agg[o.name]
    print("  %-28s cases=%-4d paths=%-7d queries=%-8d cpu=%.1fs %s%s" % (o.name, a['cases'], a['paths'], a['queries'], a['cpu_s'],
          a['status'], (' known=%d' % a['known']) if a['known'] else ''))
  if os.environ.get('VERIF_VERBOSE'):
    for (on, ci), n in sorted(percase.items(), key=lambda x: -x[1])[:12]:
      print('   case %s[%d] paths=%d %s' % (on, ci, n, [o for o in obls if o.name == on][0].cases[ci]))
  return status
