"""Imports pox.* from /repo's *working tree* through semantics-preserving AST rewrites (DESIGN §2.2) so the
real code can run on symbolic proxy values.  Nothing is cached: .pyc files are neither read nor written."""
import ast, sys, os, importlib.abc, importlib.machinery, importlib.util, hashlib

REPO = os.environ.get('POX_REPO', '/repo')
sys.dont_write_bytecode = True

CALLS = {'int': 'int_', 'bool': 'bool_', 'float': 'float_', 'bytes': 'bytes_', 'bytearray': 'bytearray_',
         'ord': 'ord_', 'chr': 'chr_', 'str': 'str_', 'repr': 'repr_', 'hex': 'hex_',
         'isinstance': 'isinstance_', 'type': 'type_', 'min': 'min_', 'max': 'max_', 'sum': 'sum_', 'set': 'set_', 'dict': 'dict_', 'range': 'range_', 'len': 'len_'}
METHODS = {'join': 'join', 'get': 'get'}
SHIM_MODULES = {'struct': 'struct_shim', 'socket': 'socket_shim', 'array': 'array_shim', 'math': 'math_shim'}

loaded_sources = {}     # path -> sha256 of the source that was compiled


def _pure(node):
  """syntactically side-effect free (names, attributes, constants, arithmetic, comparisons, subscripts)"""
  for n in ast.walk(node):
    if isinstance(n, (ast.Call, ast.Await, ast.Yield, ast.YieldFrom, ast.NamedExpr, ast.Lambda,
                      ast.ListComp, ast.SetComp, ast.DictComp, ast.GeneratorExp)):
      # calls to our own helpers produced by rewriting inner nodes are fine when their operands were pure
      if isinstance(n, ast.Call) and isinstance(n.func, ast.Attribute) and isinstance(n.func.value, ast.Name) \
         and n.func.value.id == '_sx' and n.func.attr in ('and_', 'or_', 'not_', 'ifexp', 'in_', 'notin_', 'getitem',
                                                            'isinstance_', 'type_', 'int_', 'bool_', 'min_', 'max_'):
        continue
      if isinstance(n, ast.Lambda): continue      # thunks created by the rewriter
      return False
  return True


def _sx(name):
  return ast.Attribute(value=ast.Name(id='_sx', ctx=ast.Load()), attr=name, ctx=ast.Load())


def _thunk(expr):
  return ast.Lambda(args=ast.arguments(posonlyargs=[], args=[], kwonlyargs=[], kw_defaults=[], defaults=[]), body=expr)


def _bound_names(fn):
  """names bound inside a function (args, assignments, imports, nested defs) - shadowing of builtins"""
  names = set()
  a = fn.args
  for x in a.posonlyargs + a.args + a.kwonlyargs: names.add(x.arg)
  if a.vararg: names.add(a.vararg.arg)
  if a.kwarg: names.add(a.kwarg.arg)
  body = fn.body if isinstance(fn.body, list) else [fn.body]
  for stmt in body:
    for n in ast.walk(stmt):
      if isinstance(n, ast.Name) and isinstance(n.ctx, (ast.Store, ast.Del)): names.add(n.id)
      elif isinstance(n, (ast.FunctionDef, ast.ClassDef, ast.AsyncFunctionDef)): names.add(n.name)
      elif isinstance(n, ast.alias): names.add((n.asname or n.name).split('.')[0])
  return names


class Rewriter(ast.NodeTransformer):
  def __init__(self):
    self.shadow = [set()]

  def visit(self, node):
    """a replacement expression takes the source position of the expression it replaces (not, via fix_missing_locations, the span of
    the enclosing statement): line events and tracebacks of the rewritten code then follow the original source"""
    new = super().visit(node)
    if isinstance(new, ast.AST) and new is not node and isinstance(node, ast.expr) and not hasattr(new, 'lineno'):
      ast.copy_location(new, node)
    return new

  def _shadowed(self, name):
    return any(name in s for s in self.shadow)

  # -- scopes
  def visit_Module(self, node):
    top = set()
    for stmt in node.body:
      if isinstance(stmt, (ast.FunctionDef, ast.ClassDef, ast.AsyncFunctionDef)): top.add(stmt.name)
      elif isinstance(stmt, (ast.Assign, ast.AugAssign, ast.AnnAssign)):
        for n in ast.walk(stmt):
          if isinstance(n, ast.Name) and isinstance(n.ctx, ast.Store): top.add(n.id)
    self.shadow = [top & set(CALLS)]
    self.generic_visit(node)
    return node

  VALUE_FUNCS = ('str', 'repr', 'hex', 'int', 'bool', 'ord', 'chr', 'min', 'max', 'sum')

  def _as_value(self, n):
    """a builtin passed around as a *function value* (default argument, key=..., map(f, ...)) must be the proxy-aware one"""
    if isinstance(n, ast.Name) and isinstance(n.ctx, ast.Load) and n.id in self.VALUE_FUNCS and not self._shadowed(n.id):
      return _sx(CALLS[n.id])
    return n

  def _visit_fn(self, node):
    a = node.args
    a.defaults = [self._as_value(d) for d in a.defaults]
    a.kw_defaults = [self._as_value(d) if d is not None else None for d in a.kw_defaults]
    self.shadow.append(_bound_names(node) & set(CALLS))
    self.generic_visit(node)
    self.shadow.pop()
    return node
  visit_FunctionDef = _visit_fn
  visit_AsyncFunctionDef = _visit_fn
  visit_Lambda = _visit_fn

  # -- imports of modules that have shims
  def visit_Import(self, node):
    out = [node]
    for al in node.names:
      if al.name in SHIM_MODULES:
        out.append(ast.Assign(targets=[ast.Name(id=al.asname or al.name, ctx=ast.Store())], value=_sx(SHIM_MODULES[al.name])))
    return out

  def visit_ImportFrom(self, node):
    if node.level == 0 and node.module in SHIM_MODULES:
      out = [node]
      for al in node.names:
        if al.name == '*': continue
        out.append(ast.Assign(targets=[ast.Name(id=al.asname or al.name, ctx=ast.Store())],
                              value=ast.Attribute(value=_sx(SHIM_MODULES[node.module]), attr=al.name, ctx=ast.Load())))
      return out
    return node

  # -- R1 formatting
  def visit_BinOp(self, node):
    self.generic_visit(node)
    if isinstance(node.op, ast.Mod):
      return ast.Call(func=_sx('mod'), args=[node.left, node.right], keywords=[])
    return node

  def visit_JoinedStr(self, node):
    self.generic_visit(node)
    parts = []
    for v in node.values:
      if isinstance(v, ast.FormattedValue):
        spec = v.format_spec if v.format_spec is not None else ast.Constant(None)
        parts.append(ast.Tuple(elts=[v.value, ast.Constant(v.conversion), spec], ctx=ast.Load()))
      else:
        parts.append(v)
    return ast.Call(func=_sx('fstr'), args=[ast.List(elts=parts, ctx=ast.Load())], keywords=[])

  # -- R2 boolean structure
  def visit_BoolOp(self, node):
    self.generic_visit(node)
    fn = 'and_' if isinstance(node.op, ast.And) else 'or_'
    expr = node.values[-1]
    for v in reversed(node.values[:-1]):
      expr = ast.Call(func=_sx(fn), args=[v, _thunk(expr), ast.Constant(_pure(expr))], keywords=[])
    return expr

  def visit_UnaryOp(self, node):
    self.generic_visit(node)
    if isinstance(node.op, ast.Not):
      return ast.Call(func=_sx('not_'), args=[node.operand], keywords=[])
    return node

  def visit_IfExp(self, node):
    self.generic_visit(node)
    pure = _pure(node.body) and _pure(node.orelse)
    return ast.Call(func=_sx('ifexp'), args=[node.test, _thunk(node.body), _thunk(node.orelse), ast.Constant(pure)], keywords=[])

  def visit_Compare(self, node):
    self.generic_visit(node)
    if len(node.ops) == 1 and isinstance(node.ops[0], (ast.In, ast.NotIn)):
      fn = 'in_' if isinstance(node.ops[0], ast.In) else 'notin_'
      return ast.Call(func=_sx(fn), args=[node.left, node.comparators[0]], keywords=[])
    return node

  # -- R3 subscripts (loads only)
  def visit_Subscript(self, node):
    self.generic_visit(node)
    if isinstance(node.ctx, ast.Load) and not isinstance(node.slice, (ast.Slice, ast.Tuple)):
      if isinstance(node.slice, ast.Constant): return node
      return ast.Call(func=_sx('getitem'), args=[node.value, node.slice], keywords=[])
    return node

  # -- builtin and method calls
  def visit_Call(self, node):
    self.generic_visit(node)
    f = node.func
    if isinstance(f, ast.Name) and f.id in ('map', 'filter') and node.args:
      node.args[0] = self._as_value(node.args[0])
    for kw in node.keywords:
      if kw.arg in ('key', 'formatter', 'default'): kw.value = self._as_value(kw.value)
    if isinstance(f, ast.Name) and f.id in CALLS and not self._shadowed(f.id):
      if f.id == 'type' and (len(node.args) != 1 or node.keywords): return node
      node.func = _sx(CALLS[f.id])
      return node
    if isinstance(f, ast.Attribute) and f.attr in METHODS and not node.keywords \
       and not any(isinstance(a, ast.Starred) for a in node.args):
      if f.attr == 'join' and len(node.args) != 1: return node
      if f.attr == 'get' and not (1 <= len(node.args) <= 2): return node
      return ast.Call(func=_sx(METHODS[f.attr]), args=[f.value] + node.args, keywords=[])
    if isinstance(f, ast.Attribute) and f.attr == 'format' and isinstance(f.value, ast.Constant) and isinstance(f.value.value, str):
      return ast.Call(func=_sx('format_'), args=[f.value, ast.Tuple(elts=node.args, ctx=ast.Load()),
                                                 ast.Dict(keys=[ast.Constant(k.arg) for k in node.keywords if k.arg],
                                                          values=[k.value for k in node.keywords if k.arg])], keywords=[])
    return node

  # -- R4 containers keyed by possibly-symbolic values
  def visit_ClassDef(self, node):
    for i, b in enumerate(node.bases):
      if isinstance(b, ast.Name) and b.id == 'dict': node.bases[i] = _sx('SymDict')
      elif isinstance(b, ast.Name) and b.id == 'set': node.bases[i] = _sx('SymSet')
    self.generic_visit(node)
    return node

  def visit_Attribute(self, node):
    self.generic_visit(node)
    if isinstance(node.ctx, ast.Load) and isinstance(node.value, ast.Name) and node.value.id in ('dict', 'set') \
       and not self._shadowed(node.value.id) and node.attr.startswith('__'):
      node.value = _sx('SymDict' if node.value.id == 'dict' else 'SymSet')     # dict.__contains__(self, k) inside dict subclasses
    return node

  def visit_Set(self, node):
    self.generic_visit(node)
    return ast.Call(func=_sx('set_'), args=[ast.List(elts=node.elts, ctx=ast.Load())], keywords=[])

  def visit_SetComp(self, node):
    self.generic_visit(node)
    return ast.Call(func=_sx('set_'), args=[ast.ListComp(elt=node.elt, generators=node.generators)], keywords=[])

  def visit_Dict(self, node):
    self.generic_visit(node)
    if any(k is None for k in node.keys): return node          # {**x}: leave alone
    pairs = [ast.Tuple(elts=[k, v], ctx=ast.Load()) for k, v in zip(node.keys, node.values)]
    return ast.Call(func=_sx('dict_'), args=[ast.List(elts=pairs, ctx=ast.Load())] if pairs else [], keywords=[])

  def visit_DictComp(self, node):
    self.generic_visit(node)
    return ast.Call(func=_sx('dict_'), args=[ast.ListComp(elt=ast.Tuple(elts=[node.key, node.value], ctx=ast.Load()),
                                                            generators=node.generators)], keywords=[])

  # -- R5 catch-alls must not swallow engine control exceptions
  def visit_ExceptHandler(self, node):
    self.generic_visit(node)
    t = node.type
    if t is None or (isinstance(t, ast.Name) and t.id == 'BaseException'):
      node.body.insert(0, ast.Expr(ast.Call(func=_sx('reraise_control'), args=[], keywords=[])))
    else:
      # soundness guard: a handler that swallows a TypeError/AttributeError caused by a proxy value reaching C-level code
      # would silently change the path's behaviour; note it so that the path is reported as an engine error
      node.body.insert(0, ast.Expr(ast.Call(func=_sx('note_exc'), args=[], keywords=[])))
    return node


def rewrite_source(data, path):
  tree = ast.parse(data, path)
  # keep "from __future__" imports first: the rewriter only replaces nodes in place / appends after imports
  tree = Rewriter().visit(tree)
  ast.fix_missing_locations(tree)
  return tree


class SxLoader(importlib.machinery.SourceFileLoader):
  def get_code(self, fullname):
    path = self.get_filename(fullname)
    data = self.get_data(path)
    loaded_sources[path] = hashlib.sha256(data).hexdigest()
    return self.source_to_code(data, path)

  def source_to_code(self, data, path, *, _optimize=-1):
    if os.path.abspath(path).startswith(os.path.join(REPO, 'pox') + os.sep) and _state['rewrite']:
      return compile(rewrite_source(data, path), path, 'exec', dont_inherit=True, optimize=0)
    return compile(data, path, 'exec', dont_inherit=True, optimize=0)

  def exec_module(self, module):
    if _state['rewrite']:
      from . import sx
      module.__dict__['_sx'] = sx
    super().exec_module(module)


class SxFinder(importlib.abc.MetaPathFinder):
  def find_spec(self, fullname, path, target=None):
    if fullname != 'pox' and not fullname.startswith('pox.'): return None
    parts = fullname.split('.')
    base = os.path.join(REPO, *parts)
    if os.path.isdir(base) and os.path.isfile(os.path.join(base, '__init__.py')):
      fn = os.path.join(base, '__init__.py')
      return importlib.util.spec_from_file_location(fullname, fn, loader=SxLoader(fullname, fn),
                                                    submodule_search_locations=[base])
    fn = base + '.py'
    if os.path.isfile(fn):
      return importlib.util.spec_from_file_location(fullname, fn, loader=SxLoader(fullname, fn))
    return None


_state = {'rewrite': True, 'installed': False}


def install(rewrite=True):
  """rewrite=False: plain import of /repo's pox (used for concrete replay), still never touching .pyc"""
  _state['rewrite'] = rewrite
  if not _state['installed']:
    sys.meta_path.insert(0, SxFinder())
    _state['installed'] = True
  for k in list(sys.modules):
    if k == 'pox' or k.startswith('pox.'): del sys.modules[k]
