"""Translator validation, part B: the repository's own test-suite is run twice - plainly, and through the AST-rewriting loader
(symx.loader, all operands concrete) - and the sets of passing tests must be identical.  A difference means a rewrite changed
concrete behaviour: ENGINE-ERROR, never a property verdict."""
import os, re, subprocess, sys

HERE = os.path.dirname(os.path.dirname(os.path.abspath(__file__)))
REPO = os.environ.get('VERIF_REPO', '/repo')

DRIVER = r"""
import sys
sys.path.insert(0, %r)
sys.setrecursionlimit(20000)
if %r:
  from symx import loader
  loader.install(rewrite=True)
sys.path.insert(0, %r)
import pytest
sys.exit(pytest.main(['-q', '-rA', '-p', 'no:cacheprovider', '--timeout=900', '--continue-on-collection-errors', 'tests']))
"""


def passed(rewrite):
  env = dict(os.environ, PYTHONDONTWRITEBYTECODE='1', PYTHONHASHSEED='0')
  p = subprocess.run([sys.executable, '-c', DRIVER % (HERE, bool(rewrite), REPO)], cwd=REPO, env=env, capture_output=True, text=True, timeout=1200)
  ids = set(re.findall(r'^PASSED (\S+)', p.stdout, re.M))
  return ids, p.stdout[-1500:] + p.stderr[-1500:]


def main():
  plain, out1 = passed(False)
  rew, out2 = passed(True)
  print("translator validation B: repository tests passing plainly: %d, through the rewritten modules: %d" % (len(plain), len(rew)))
  if not plain:
    print("ENGINE-ERROR could not run the repository tests\n" + out1); return 3
  if plain != rew:
    print("ENGINE-ERROR rewritten modules change concrete behaviour: only plain %s ; only rewritten %s" % (sorted(plain - rew)[:10], sorted(rew - plain)[:10]))
    print(out2)
    return 3
  return 0


if __name__ == '__main__':
  sys.exit(main())
