"""symx core: bounded symbolic execution of real Python code over QF_BV (z3).

Values:  SymInt (BitVec(W) + conservative interval), SymBool, SymBytes (fixed length, symbolic content).
Engine:  depth-first exploration of decision prefixes by re-execution; every fork is decided by the
         solver (both sides checked, only feasible sides entered).
Nothing here knows about POX.
"""
import sys, os, time, signal, z3

W = 80                       # bit width of SymInt terms (set_width() before creating values)
LIM = 1 << (W - 2)
LITTLE = sys.byteorder == 'little'


def set_width(w):
  global W, LIM
  W = w
  LIM = 1 << (W - 2)


class Control(BaseException):
  """Base of engine control exceptions (never an Exception: POX catch-alls must not swallow them)."""


class Inconclusive(Control):
  pass


class Abort(Control):
  """current path is infeasible / abandoned (assume failed)"""


class PathBudget(Control):
  """per-path decision / step / time budget exhausted"""


MODE = 'bv'                  # 'bv': QF_BV terms (default).  'int': mathematical integers (LIA with div/mod by
                             # constants) for summation kernels (checksums) where bit-blasting stalls.


def set_mode(m):
  global MODE
  assert m in ('bv', 'int')
  MODE = m


def bvv(v):
  return z3.BitVecVal(v, W) if MODE == 'bv' else z3.IntVal(v)


def _is_val(s):
  return z3.is_bv_value(s) if MODE == 'bv' else z3.is_int_value(s)


def _val(s):
  return s.as_signed_long() if MODE == 'bv' else s.as_long()


def _contig_mask(m):
  """(a, b) if m == 2^b - 2^a (bits a..b-1 set) else None"""
  if m <= 0: return None
  a = (m & -m).bit_length() - 1
  b = m.bit_length()
  return (a, b) if m == (1 << b) - (1 << a) else None


def _tz_of(x):
  """number of provably zero low bits of a lifted SymInt (int mode only)"""
  c = x.lo if x.lo == x.hi else None
  if c is not None:
    return W if c == 0 else (c & -c).bit_length() - 1
  return getattr(x, 'tz', 0)


def byte_of(v, i):
  """i-th least significant byte of (two's complement) SymInt v as SymInt 0..255"""
  if MODE == 'bv':
    return SymInt(z3.simplify(z3.ZeroExt(W - 8, z3.Extract(8 * i + 7, 8 * i, v.e))), 0, 255)
  return SymInt((v.e / (1 << (8 * i))) % 256, 0, 255)


def from_bytes_be(bs, signed):
  """SymInt from a list of byte values (int|SymInt), most significant first"""
  n = len(bs)
  lo, hi = (-(1 << (8 * n - 1)), (1 << (8 * n - 1)) - 1) if signed else (0, (1 << (8 * n)) - 1)
  if MODE == 'bv':
    e = None
    for b in bs:
      be = z3.Extract(7, 0, lift(b).e)
      e = be if e is None else z3.Concat(e, be)
    e = z3.SignExt(W - 8 * n, e) if signed else z3.ZeroExt(W - 8 * n, e)
    return SymInt(z3.simplify(e), lo, hi)
  e = z3.IntVal(0)
  for b in bs:
    e = e * 256 + lift(b).e
  if signed: e = z3.If(e >= (1 << (8 * n - 1)), e - (1 << (8 * n)), e)
  return SymInt(e, lo, hi)


class Engine:
  cur = None

  def __init__(self, solver_timeout_ms=30000, max_decisions=4000, path_seconds=60, conc_cap=300):
    self.solver = (z3.SolverFor('QF_BV') if os.environ.get('SX_SOLVER','default')=='QF_BV' else z3.Solver()) if MODE == 'bv' else z3.Solver()
    self.solver.set('timeout', solver_timeout_ms)
    self.solver_calls = 0
    self.solver_time = 0.0
    self.max_decisions = max_decisions
    self.path_seconds = path_seconds
    self.conc_cap = conc_cap
    self.concretisations = 0
    self.paths = 0
    self.forks = 0
    self.poisoned = None
    self.nfresh = 0

  # ---- per-path state
  def _reset_path(self, prefix):
    self.prefix = prefix
    self.pos = 0
    self.decisions = []
    self.pending = []
    self.inputs = []          # (name, kind, term(s))
    self.known = {}
    self.clauses = []         # (name, SymBool|bool)
    self.witnesses = set()
    self.ndec = 0
    self.poisoned = None
    self.path_forks = 0
    self.notes = {}
    self._model = None

  def poison(self, exc):
    self.poisoned = exc

  def check_poison(self):
    if self.poisoned is not None:
      raise self.poisoned

  def fresh_int(self, name, lo, hi):
    if MODE == 'bv' and lo >= 0:
      # a k-bit variable zero-extended to W bits: the range is structural, and Extract/Concat round trips through
      # struct pack/unpack simplify back to the same term (keeps checksum terms syntactically equal on both sides)
      k = max(hi.bit_length(), 1)
      v0 = z3.BitVec(name, k)
      v = z3.ZeroExt(W - k, v0) if k < W else v0
      if lo > 0: self.solver.add(z3.UGE(v0, lo))
      if hi != (1 << k) - 1: self.solver.add(z3.ULE(v0, hi))
    else:
      v = z3.BitVec(name, W) if MODE == 'bv' else z3.Int(name)
      self.solver.add(v >= lo, v <= hi)
    self._model = None
    s = SymInt(v, lo, hi)
    self.inputs.append((name, 'int', v))
    return s

  def fresh_bool(self, name):
    v = z3.Bool(name)
    self.inputs.append((name, 'bool', v))
    return SymBool(v)

  def fresh_bytes(self, name, n):
    items = []
    for i in range(n):
      items.append(self.fresh_int("%s[%d]" % (name, i), 0, 255))
    # fresh_int registered each byte separately; regroup as one input
    del self.inputs[len(self.inputs) - n:]
    self.inputs.append((name, 'bytes', [x.e for x in items]))
    return SymBytes(items)

  def check(self, *extra):
    t = time.time()
    self.solver_calls += 1
    r = self.solver.check(*extra)
    self.solver_time += time.time() - t
    if r == z3.unknown:
      raise Inconclusive("solver unknown: %s" % self.solver.reason_unknown())
    return r == z3.sat

  def model_values(self, model=None):
    m = model or self.solver.model()
    out = {}
    for name, kind, t in self.inputs:
      if kind == 'int':
        out[name] = _val(m.eval(t, model_completion=True))
      elif kind == 'bool':
        out[name] = bool(z3.is_true(m.eval(t, model_completion=True)))
      else:
        out[name] = [_val(m.eval(x, model_completion=True)) for x in t]
    return out

  def assume(self, c):
    self.check_poison()
    if isinstance(c, SymBool):
      e = z3.simplify(c.e)
      if z3.is_true(e): return
      if z3.is_false(e): raise Abort()
      self.solver.add(e)
      self._model = None
      if not self.check(): raise Abort()
    elif not c:
      raise Abort()

  def decide(self, e, val=None):
    """Concrete truth of symbolic bool e on this path; schedules the other side if feasible."""
    self.check_poison()
    e = z3.simplify(e)
    if z3.is_true(e): return True
    if z3.is_false(e): return False
    self.ndec += 1
    if self.ndec > self.max_decisions:
      raise PathBudget("decision budget")
    if self.pos < len(self.prefix):
      d, forced, h, pv = self.prefix[self.pos]
      if h != _site() or pv != val:
        raise Inconclusive("nondeterministic re-execution (decision %d)" % self.pos)
      self.pos += 1
      self.decisions.append((d, forced, h, pv))
    else:
      m = self._model
      if m is None:
        if not self.check(): raise Abort()
        m = self._model = self.solver.model()
      side = z3.is_true(m.eval(e, model_completion=True))      # this side is feasible: the cached model witnesses it
      other_ok = self.check(z3.Not(e) if side else e)
      other_model = self.solver.model() if other_ok else None
      h = _site()
      if other_ok:
        d = True
        self.pending.append(self.decisions + [(False, False, h, val)])
        self.decisions.append((True, False, h, val))
        self.path_forks += 1
        if not side: self._model = other_model
      else:
        d = side
        self.decisions.append((d, True, h, val))
      self.pos += 1
    # no per-path cache keyed on term identity: AST ids (and the simplifier's argument order) differ between worker
    # processes, and a replayed prefix must see exactly the same sequence of decide() calls
    self.solver.add(e if d else z3.Not(e))
    return d

  # ---- exploration
  def explore(self, fn, on_path, stack=None, max_paths=10**9, deadline=None, split_at=None, slice_until=None):
    """fn(engine) runs the harness once.  on_path(engine, outcome) is called for each completed path with
    outcome = ('ok', None) | ('exc', exception) and may query the solver (path condition is asserted).
    Returns leftover stack (non-empty only when split_at is reached)."""
    stack = [[]] if stack is None else stack
    while stack:
      if split_at is not None and len(stack) >= split_at:
        return stack
      if slice_until is not None and time.time() > slice_until and self.paths > 0:
        return stack
      if deadline is not None and time.time() > deadline:
        raise Inconclusive("time budget exhausted with %d open subtrees" % len(stack))
      prefix = stack.pop()
      self._reset_path(prefix)
      self.solver.push()
      Engine.cur = self
      outcome = None
      try:
        signal.setitimer(signal.ITIMER_REAL, self.path_seconds)
        try:
          try:
            fn(self)
            outcome = ('ok', None)
          except Abort:
            outcome = None
          except Control:
            raise
          except Exception as ex:
            outcome = ('exc', ex)
        finally:
          signal.setitimer(signal.ITIMER_REAL, 0)
        if self.poisoned is not None and outcome is not None:
          raise self.poisoned
        if outcome is not None:
          if self.pos < len(self.prefix):
            raise Inconclusive("re-execution ended before its prefix was consumed")
          if self._model is None and self.prefix and not self.check():
            raise Inconclusive("replayed prefix gave an infeasible path condition")
          self.paths += 1
          if self.path_forks or self.decisions: self.forks += 1
          on_path(self, outcome)
        stack.extend(self.pending)
      finally:
        self.solver.pop()
        Engine.cur = None
      if self.paths >= max_paths:
        raise Inconclusive("path budget (%d)" % max_paths)
    return []


_HERE = __file__.rsplit('/', 1)[0] + '/'

def _site():
  """fingerprint of the program point that asked for a decision (first frame outside symx/): z3 term hashes are not
  stable across worker processes (the simplifier orders commutative arguments by AST id), source positions are"""
  f = sys._getframe(2)
  while f is not None and f.f_code.co_filename.startswith(_HERE): f = f.f_back
  if f is None: return 0
  return hash((f.f_code.co_filename, f.f_lineno)) & 0xffffffff


def _alarm(signum, frame):
  e = PathBudget("per-path time budget")
  if Engine.cur is not None: Engine.cur.poison(e)
  raise e


signal.signal(signal.SIGALRM, _alarm)


def E():
  e = Engine.cur
  if e is None: raise Inconclusive("symbolic value used outside a path")
  return e


# ----------------------------------------------------------------------------------------------
def is_sym(x):
  return isinstance(x, (SymInt, SymBool)) or (isinstance(x, SymBytes) and x.symbolic())


def lift(x):
  if isinstance(x, SymInt): return x
  if isinstance(x, SymBool): return SymInt(z3.If(x.e, bvv(1), bvv(0)), 0, 1)
  if isinstance(x, bool): x = int(x)
  if isinstance(x, int):
    if not (-LIM < x < LIM) and MODE == 'bv': raise Inconclusive("constant wider than %d bits" % W)
    return SymInt(bvv(x), x, x)
  return None


def _pow2(m):
  return 1 << max(m, 0).bit_length()


class SymInt:
  __slots__ = ('e', 'lo', 'hi', 'tz')

  def __init__(self, e, lo, hi):
    if (lo < -LIM or hi > LIM) and MODE == 'bv': raise Inconclusive("integer may exceed %d bits" % W)
    self.e = e; self.lo = lo; self.hi = hi; self.tz = 0

  def _bin(self, o, f, iv):
    o = lift(o)
    if o is None: return NotImplemented
    lo, hi = iv(self, o)
    return SymInt(f(self.e, o.e), lo, hi)

  def _rbin(self, o, f, iv):
    o = lift(o)
    if o is None: return NotImplemented
    lo, hi = iv(o, self)
    return SymInt(f(o.e, self.e), lo, hi)

  _iv_add = staticmethod(lambda a, b: (a.lo + b.lo, a.hi + b.hi))
  _iv_sub = staticmethod(lambda a, b: (a.lo - b.hi, a.hi - b.lo))

  def __add__(self, o): return self._bin(o, lambda a, b: a + b, self._iv_add)
  def __radd__(self, o): return self._rbin(o, lambda a, b: a + b, self._iv_add)
  def __sub__(self, o): return self._bin(o, lambda a, b: a - b, self._iv_sub)
  def __rsub__(self, o): return self._rbin(o, lambda a, b: a - b, self._iv_sub)
  def __neg__(self): return SymInt(-self.e, -self.hi, -self.lo)
  def __pos__(self): return self
  def __invert__(self):
    if MODE == 'int': return SymInt(-self.e - 1, ~self.hi, ~self.lo)
    return SymInt(~self.e, ~self.hi, ~self.lo)
  def __abs__(self):
    return SymInt(z3.If(self.e < 0, -self.e, self.e), 0 if self.lo <= 0 <= self.hi else min(abs(self.lo), abs(self.hi)),
                  max(abs(self.lo), abs(self.hi)))

  @staticmethod
  def _iv_mul(a, b):
    c = [a.lo * b.lo, a.lo * b.hi, a.hi * b.lo, a.hi * b.hi]
    return min(c), max(c)
  def __mul__(self, o):
    if isinstance(o, (bytes, str, list, tuple)): return o * int(self)
    return self._bin(o, lambda a, b: a * b, self._iv_mul)
  def __rmul__(self, o):
    if isinstance(o, (bytes, str, list, tuple)): return o * int(self)
    return self._rbin(o, lambda a, b: a * b, self._iv_mul)

  @staticmethod
  def _iv_and(a, b):
    if a.lo >= 0 and b.lo >= 0: return (0, min(a.hi, b.hi))
    if b.lo >= 0: return (0, b.hi)
    if a.lo >= 0: return (0, a.hi)
    n = _pow2(max(abs(a.lo), abs(a.hi), abs(b.lo), abs(b.hi)))
    return (-n, n)
  def _int_and(self, o):
    o = lift(o)
    if o is None: return NotImplemented
    a, b = (self, o) if o.lo == o.hi else (o, self)
    if b.lo != b.hi: raise Inconclusive("int mode: & of two non-constant values")
    m = b.lo
    if m == 0: return lift(0)
    if m < 0:
      # x & ~k  (k = ~m >= 0 contiguous from bit 0):  x - (x mod 2^j)
      k = ~m
      cm = _contig_mask(k) if k else (0, 0)
      if cm is None or cm[0] != 0: raise Inconclusive("int mode: & with non-contiguous mask")
      r = SymInt(a.e - a.e % (1 << cm[1]), min(a.lo, a.lo - k), a.hi)
      r.tz = cm[1]; return r
    cm = _contig_mask(m)
    if cm is None: raise Inconclusive("int mode: & with non-contiguous mask %#x" % m)
    lo_b, hi_b = cm
    e = a.e % (1 << hi_b)
    if lo_b: e = e - a.e % (1 << lo_b)
    r = SymInt(e, 0, m if a.lo < 0 else min(a.hi, m))
    r.tz = lo_b
    return r
  def __and__(self, o):
    if MODE == 'int': return self._int_and(o)
    return self._bin(o, lambda a, b: a & b, self._iv_and)
  def __rand__(self, o):
    if MODE == 'int': return self._int_and(o)
    return self._rbin(o, lambda a, b: a & b, self._iv_and)

  @staticmethod
  def _iv_or(a, b):
    n = _pow2(max(abs(a.lo), abs(a.hi), abs(b.lo), abs(b.hi)))
    return ((0 if (a.lo >= 0 and b.lo >= 0) else -n), n - 1)
  def _int_or(self, o):
    o = lift(o)
    if o is None: return NotImplemented
    a, b = self, o
    # disjoint bit ranges: one operand is < 2^k and non-negative, the other has k trailing zero bits
    for x, y in ((a, b), (b, a)):
      if y.lo >= 0 and x.lo >= 0 and y.hi < (1 << _tz_of(x)):
        r = SymInt(x.e + y.e, x.lo + y.lo, x.hi + y.hi)
        r.tz = min(_tz_of(x), _tz_of(y)); return r
    raise Inconclusive("int mode: | or ^ of possibly overlapping values")
  def __or__(self, o):
    if MODE == 'int': return self._int_or(o)
    return self._bin(o, lambda a, b: a | b, self._iv_or)
  def __ror__(self, o):
    if MODE == 'int': return self._int_or(o)
    return self._rbin(o, lambda a, b: a | b, self._iv_or)
  def __xor__(self, o):
    if MODE == 'int': return self._int_or(o)
    return self._bin(o, lambda a, b: a ^ b, self._iv_or)
  def __rxor__(self, o):
    if MODE == 'int': return self._int_or(o)
    return self._rbin(o, lambda a, b: a ^ b, self._iv_or)

  @staticmethod
  def _iv_shl(a, n):
    if n.lo < 0:
      if bool(n < 0): raise ValueError("negative shift count")
      n.lo = 0
    if n.hi > W:
      if bool(n > W - 2): raise Inconclusive("shift count may exceed width")
      n.hi = W - 2
    c = [a.lo << n.lo, a.lo << n.hi, a.hi << n.lo, a.hi << n.hi]
    return min(c), max(c)
  def _int_shl(self, n):
    if isinstance(n, SymInt): n = n.concrete()
    if not isinstance(n, int) or n < 0: raise Inconclusive("int mode: symbolic shift count")
    r = SymInt(self.e * (1 << n), self.lo << n, self.hi << n)
    r.tz = _tz_of(self) + n
    return r
  def __lshift__(self, n):
    if MODE == 'int': return self._int_shl(n)
    return self._bin(n, lambda a, b: a << b, self._iv_shl)
  def __rlshift__(self, o):
    if MODE == 'int': raise Inconclusive("int mode: symbolic shift count")
    return self._rbin(o, lambda a, b: a << b, self._iv_shl)

  @staticmethod
  def _iv_shr(a, n):
    if n.lo < 0: raise Inconclusive("possibly negative shift count")
    # shifting by >= W in BV arithmetic shift gives 0/-1, same as Python for |a| < 2^(W-2)
    c = [a.lo >> n.lo, a.lo >> min(n.hi, W), a.hi >> n.lo, a.hi >> min(n.hi, W)]
    return min(c), max(c)
  def __rshift__(self, n):
    if MODE == 'int':
      if isinstance(n, SymInt): n = n.concrete()
      if not isinstance(n, int) or n < 0: raise Inconclusive("int mode: symbolic shift count")
      return SymInt(self.e / (1 << n), self.lo >> n, self.hi >> n)
    return self._bin(n, lambda a, b: a >> b, self._iv_shr)
  def __rrshift__(self, o):
    if MODE == 'int': raise Inconclusive("int mode: symbolic shift count")
    return self._rbin(o, lambda a, b: a >> b, self._iv_shr)

  def _divmod(self, d):
    d = lift(d)
    if d is None: return NotImplemented
    if d.lo <= 0 <= d.hi:
      if bool(d == 0): raise ZeroDivisionError("integer division or modulo by zero")
    if MODE == 'int':
      if d.lo != d.hi or d.lo <= 0: raise Inconclusive("int mode: division by a non-constant or non-positive value")
      k = d.lo
      return (SymInt(self.e / k, self.lo // k, self.hi // k), SymInt(self.e % k, 0, k - 1))
    if self.lo >= 0 and d.lo > 0:
      # non-negative operands: unsigned division on the narrowest sufficient width (cheap to bit-blast), zero-extended back
      k = min(max(self.hi, d.hi).bit_length() + 1, W)
      a = z3.Extract(k - 1, 0, self.e); b = z3.Extract(k - 1, 0, d.e)
      q = z3.UDiv(a, b); r = z3.URem(a, b)
      if k < W: q = z3.ZeroExt(W - k, q); r = z3.ZeroExt(W - k, r)
      return (SymInt(z3.simplify(q), self.lo // d.hi, self.hi // d.lo), SymInt(z3.simplify(r), 0, min(d.hi - 1, self.hi)))
    a, b = self.e, d.e
    q = a / b                     # bvsdiv: truncates toward zero
    r = z3.SRem(a, b)             # sign follows dividend
    adj = z3.And(r != 0, (r < 0) != (b < 0))
    q = z3.If(adj, q - 1, q)
    r = z3.If(adj, r + b, r)
    m = max(abs(self.lo), abs(self.hi)) + 1
    dm = max(abs(d.lo), abs(d.hi))
    rlo, rhi = (0, dm - 1) if d.lo > 0 else (-dm, dm)
    if self.lo >= 0 and d.lo > 0:
      qlo, qhi = self.lo // d.hi, self.hi // d.lo
      rhi = min(rhi, self.hi)
    else:
      qlo, qhi = -m, m
    return SymInt(q, qlo, qhi), SymInt(r, rlo, rhi)
  def __floordiv__(self, d):
    r = self._divmod(d)
    return r if r is NotImplemented else r[0]
  def __mod__(self, d):
    r = self._divmod(d)
    return r if r is NotImplemented else r[1]
  def __divmod__(self, d): return self._divmod(d)
  def __rfloordiv__(self, o): return lift(o).__floordiv__(self)
  def __rmod__(self, o):
    l = lift(o)
    if l is None: return NotImplemented
    return l.__mod__(self)
  def __truediv__(self, o): raise Inconclusive("true division of a symbolic integer (float)")
  __rtruediv__ = __truediv__
  def __float__(self): raise Inconclusive("float() of a symbolic integer")
  def __pow__(self, o, m=None):
    if isinstance(o, int) and 0 <= o <= 4 and m is None:
      r = 1
      for _ in range(o): r = self * r
      return r
    raise Inconclusive("symbolic pow")
  def __rpow__(self, o):
    if o == 2: return 1 << self
    raise Inconclusive("symbolic pow")

  def _cmp(self, o, f, name=None):
    if isinstance(o, float) and name is not None:
      # integer vs float constant: compare against the neighbouring integer (exact for integer-valued self)
      import math
      if math.isnan(o): return name == 'ne'
      if math.isinf(o):          # float('inf') as an "unbounded" sentinel (min(..., inf), x < inf): a constant answer
        return {'lt': o > 0, 'le': o > 0, 'gt': o < 0, 'ge': o < 0, 'eq': False, 'ne': True}[name]
      if name == 'lt': return self._cmp(math.ceil(o), f)
      if name == 'le': return self._cmp(math.floor(o), f)
      if name == 'gt': return self._cmp(math.floor(o), f)
      if name == 'ge': return self._cmp(math.ceil(o), f)
      if name in ('eq', 'ne'):
        if o != int(o): return (name == 'ne')
        return self._cmp(int(o), f)
    o = lift(o)
    if o is None: return NotImplemented
    return SymBool(f(self.e, o.e))
  def __eq__(self, o):
    r = self._cmp(o, lambda a, b: a == b, 'eq')
    return False if r is NotImplemented else r
  def __ne__(self, o):
    r = self._cmp(o, lambda a, b: a != b, 'ne')
    return True if r is NotImplemented else r
  def __lt__(self, o): return self._cmp(o, lambda a, b: a < b, 'lt')
  def __le__(self, o): return self._cmp(o, lambda a, b: a <= b, 'le')
  def __gt__(self, o): return self._cmp(o, lambda a, b: a > b, 'gt')
  def __ge__(self, o): return self._cmp(o, lambda a, b: a >= b, 'ge')
  def __bool__(self): return E().decide(self.e != 0)

  def concrete(self):
    """int if this term is a constant, else None (no fork)"""
    s = z3.simplify(self.e)
    if _is_val(s): return _val(s)
    return None

  def __index__(self):
    eng = E()
    eng.check_poison()
    s = z3.simplify(self.e)
    if _is_val(s): return _val(s)
    eng.concretisations += 1
    n = 0
    while True:
      # a replayed prefix must concretise to the same values the recording run chose (models are not reproducible)
      if eng.pos < len(eng.prefix) and eng.prefix[eng.pos][3] is not None:
        v = eng.prefix[eng.pos][3]
      else:
        if not eng.check(): raise Abort()
        v = _val(eng.solver.model().eval(self.e, model_completion=True))
      if eng.decide(self.e == v, val=v): return v
      n += 1
      if n > eng.conc_cap:
        raise Inconclusive("concretisation of a symbolic integer enumerated more than %d values" % eng.conc_cap)
  __int__ = __index__
  def __hash__(self): return hash(self.__index__())
  def __repr__(self): return "SymInt(%s)" % (z3.simplify(self.e),)
  __str__ = __repr__
  def __format__(self, spec): raise Inconclusive("format() of a symbolic integer")
  def bit_length(self): return int(self).bit_length()
  def to_bytes(self, length, byteorder='big', signed=False):
    length = int(length)
    bs = [byte_of(self, i) for i in range(length)]
    lo, hi = (-(1 << (8 * length - 1)), (1 << (8 * length - 1)) - 1) if signed else (0, (1 << (8 * length)) - 1)
    if self.lo < lo or self.hi > hi:
      if not And(self >= lo, self <= hi): raise OverflowError("int too big to convert")
    if byteorder == 'big': bs.reverse()
    return SymBytes(bs)


class SymBool:
  __slots__ = ('e',)
  def __init__(self, e): self.e = e
  def __bool__(self): return E().decide(self.e)
  def __and__(self, o):
    if isinstance(o, SymBool): return SymBool(z3.And(self.e, o.e))
    if isinstance(o, bool): return self if o else False
    return lift(self) & o
  __rand__ = __and__
  def __or__(self, o):
    if isinstance(o, SymBool): return SymBool(z3.Or(self.e, o.e))
    if isinstance(o, bool): return True if o else self
    return lift(self) | o
  __ror__ = __or__
  def __xor__(self, o):
    if isinstance(o, SymBool): return SymBool(z3.Xor(self.e, o.e))
    if isinstance(o, bool): return SymBool(z3.Not(self.e)) if o else self
    return lift(self) ^ o
  __rxor__ = __xor__
  def __invert__(self): return ~lift(self)
  def __eq__(self, o):
    if isinstance(o, SymBool): return SymBool(self.e == o.e)
    if isinstance(o, bool): return self if o else SymBool(z3.Not(self.e))
    if isinstance(o, (int, SymInt)): return lift(self) == o
    return False
  def __ne__(self, o):
    r = self.__eq__(o)
    return Not(r)
  def __hash__(self): return hash(bool(self))
  def __index__(self): return int(bool(self))
  __int__ = __index__
  def __add__(self, o): return lift(self) + o
  __radd__ = __add__
  def __sub__(self, o): return lift(self) - o
  def __rsub__(self, o): return o - lift(self)
  def __mul__(self, o): return lift(self) * o
  __rmul__ = __mul__
  def __lshift__(self, o): return lift(self) << o
  def __lt__(self, o): return lift(self) < o
  def __le__(self, o): return lift(self) <= o
  def __gt__(self, o): return lift(self) > o
  def __ge__(self, o): return lift(self) >= o
  def __repr__(self): return "SymBool(%s)" % (z3.simplify(self.e),)


# ---- boolean helpers usable on both symbolic and concrete values (harness oracles use these)
def Not(a):
  if isinstance(a, SymBool): return SymBool(z3.Not(a.e))
  if isinstance(a, SymInt): return a == 0
  return not a

def And(*xs):
  es = []
  for x in xs:
    if isinstance(x, SymInt): x = (x != 0)
    if isinstance(x, SymBool): es.append(x.e)
    elif not x: return False
  if not es: return True
  return SymBool(z3.And(*es)) if len(es) > 1 else SymBool(es[0])

def Or(*xs):
  es = []
  for x in xs:
    if isinstance(x, SymInt): x = (x != 0)
    if isinstance(x, SymBool): es.append(x.e)
    elif x: return True
  if not es: return False
  return SymBool(z3.Or(*es)) if len(es) > 1 else SymBool(es[0])

def Implies(a, b): return Or(Not(a), b)

def Iff(a, b):
  return And(Implies(a, b), Implies(b, a))

def Ite(c, a, b):
  """int-valued if-then-else"""
  if isinstance(c, SymInt): c = (c != 0)
  if not isinstance(c, SymBool): return a if c else b
  if isinstance(a, (SymBool, bool)) and isinstance(b, (SymBool, bool)):
    return Or(And(c, a), And(Not(c), b))
  la, lb = lift(a), lift(b)
  if la is None or lb is None: return a if bool(c) else b
  return SymInt(z3.If(c.e, la.e, lb.e), min(la.lo, lb.lo), max(la.hi, lb.hi))

def Eq(a, b):
  """equality usable on ints/bytes/SymBytes, returns bool or SymBool, never forks"""
  if isinstance(a, SymBytes) or isinstance(b, SymBytes):
    if not isinstance(a, SymBytes): a, b = b, a
    return a.__eq__(b)
  r = (a == b)
  return r


# ----------------------------------------------------------------------------------------------
class SymBytes:
  """bytes of concrete length; items are int or SymInt in [0,255]."""
  __slots__ = ('b',)

  def __init__(self, items=()):
    self.b = [x if isinstance(x, SymInt) else int(x) for x in items]

  def symbolic(self): return any(isinstance(x, SymInt) for x in self.b)

  def simplified(self):
    """bytes if every item is constant, else self"""
    out = []
    for x in self.b:
      if isinstance(x, SymInt):
        c = x.concrete()
        if c is None: return self
        out.append(c)
      else: out.append(x)
    return bytes(out)

  def __len__(self): return len(self.b)
  def __getitem__(self, i):
    if isinstance(i, slice): return SymBytes(self.b[i])
    return self.b[i]
  def __iter__(self): return iter(self.b)
  def __add__(self, o):
    if isinstance(o, (SymBytes, bytes, bytearray)): return SymBytes(self.b + list(o))
    return NotImplemented
  def __radd__(self, o):
    if isinstance(o, (SymBytes, bytes, bytearray)): return SymBytes(list(o) + self.b)
    return NotImplemented
  def __mul__(self, n): return SymBytes(self.b * int(n))
  __rmul__ = __mul__
  def __eq__(self, o):
    if not isinstance(o, (SymBytes, bytes, bytearray)): return False
    if len(o) != len(self.b): return False
    conj = []
    for x, y in zip(self.b, o):
      r = (x == y)
      if r is False: return False
      if r is True: continue
      conj.append(r.e)
    if not conj: return True
    return SymBool(z3.And(*conj)) if len(conj) > 1 else SymBool(conj[0])
  def __ne__(self, o): return Not(self.__eq__(o))
  def __lt__(self, o): return self._lex(o, False)
  def __le__(self, o): return self._lex(o, True)
  def __gt__(self, o): return Not(self._lex(o, True))
  def __ge__(self, o): return Not(self._lex(o, False))
  def _lex(self, o, eq_ok):
    if not isinstance(o, (SymBytes, bytes, bytearray)): return NotImplemented
    a, b = self.b, list(o)
    n = min(len(a), len(b))
    res = (len(a) < len(b)) or (eq_ok and len(a) == len(b))
    for i in range(n - 1, -1, -1):
      res = Or(a[i] < b[i], And(a[i] == b[i], res))
    return res
  def __hash__(self): return hash(bytes(int(x) for x in self.b))
  def __bytes__(self): return bytes(int(x) for x in self.b)
  def __bool__(self): return len(self.b) > 0
  def __contains__(self, x):
    if isinstance(x, (int, SymInt)): return bool(Or(*[(y == x) for y in self.b]))
    return self.find(x) >= 0
  def __repr__(self): return "SymBytes(%r)" % (self.b,)
  def concretize(self): return bytes(int(x) for x in self.b)

  def ljust(self, n, pad=b' '): return SymBytes(self.b + [pad[0]] * (n - len(self.b)))
  def tobytes(self): return self
  def hex(self): return self.concretize().hex()
  @staticmethod
  def _nostr(x, msg):
    # bytes methods reject text operands exactly like the real type does
    if isinstance(x, str) or type(x).__name__ == 'SymStr': raise TypeError(msg % type(x).__name__.replace('SymStr', 'str'))
  def startswith(self, p, start=0):
    self._nostr(p, "startswith first arg must be bytes or a tuple of bytes, not %s")
    p = list(p)
    if len(self.b) - start < len(p): return False
    return bool(SymBytes(self.b[start:start + len(p)]) == SymBytes(p))
  def endswith(self, p):
    self._nostr(p, "endswith first arg must be bytes or a tuple of bytes, not %s")
    p = list(p)
    if len(self.b) < len(p): return False
    return bool(SymBytes(self.b[len(self.b) - len(p):]) == SymBytes(p))
  def find(self, sub, start=0, end=None):
    self._nostr(sub, "argument should be integer or bytes-like object, not '%s'")
    sub = list(sub) if not isinstance(sub, (int, SymInt)) else [sub]
    end = len(self.b) if end is None else end
    for i in range(start, end - len(sub) + 1):
      if SymBytes(self.b[i:i + len(sub)]) == SymBytes(sub): return i     # forks per position
    return -1
  def index(self, sub, start=0, end=None):
    r = self.find(sub, start, end)
    if r < 0: raise ValueError("subsection not found")
    return r
  def _at(self, i, sub):
    if i + len(sub) > len(self.b): return False
    return bool(SymBytes(self.b[i:i + len(sub)]) == SymBytes(sub))
  def count(self, sub):
    self._nostr(sub, "argument should be integer or bytes-like object, not '%s'")
    sub = [sub] if isinstance(sub, (int, SymInt)) else list(sub)
    n = 0; i = 0
    while i + len(sub) <= len(self.b):
      if self._at(i, sub): n += 1; i += max(len(sub), 1)
      else: i += 1
    return n
  def split(self, sep, maxsplit=-1):
    self._nostr(sep, "a bytes-like object is required, not '%s'")
    sep = list(sep)
    if not sep: raise ValueError("empty separator")
    out = []; cur = []; i = 0
    while i < len(self.b):
      if (maxsplit < 0 or len(out) < maxsplit) and self._at(i, sep):
        out.append(SymBytes(cur)); cur = []; i += len(sep)
      else: cur.append(self.b[i]); i += 1
    out.append(SymBytes(cur))
    return out
  def rsplit(self, sep, maxsplit=-1):
    self._nostr(sep, "a bytes-like object is required, not '%s'")
    sep = list(sep)
    if maxsplit < 0: return self.split(sep)
    out = []; end = len(self.b); i = end - len(sep)
    while i >= 0 and len(out) < maxsplit:
      if self._at(i, sep):
        out.insert(0, SymBytes(self.b[i + len(sep):end])); end = i; i -= len(sep)
      else: i -= 1
    out.insert(0, SymBytes(self.b[:end]))
    return out
  def replace(self, old, new):
    self._nostr(old, "a bytes-like object is required, not '%s'"); self._nostr(new, "a bytes-like object is required, not '%s'")
    old = list(old); out = []; i = 0
    while i < len(self.b):
      if old and self._at(i, old): out.extend(new); i += len(old)
      else: out.append(self.b[i]); i += 1
    return SymBytes(out)
  def rstrip(self, chars=None):
    chars = b' \t\n\r\x0b\x0c' if chars is None else chars
    b = list(self.b)
    while b and bool(Or(*[(b[-1] == c) for c in chars])): b.pop()
    return SymBytes(b)
  def strip(self, chars=None):
    r = self.rstrip(chars)
    chars = b' \t\n\r\x0b\x0c' if chars is None else chars
    b = list(r.b)
    while b and bool(Or(*[(b[0] == c) for c in chars])): b.pop(0)
    return SymBytes(b)
  def isdigit(self):
    return len(self.b) > 0 and bool(And(*[And(c >= 48, c <= 57) for c in self.b]))
  def lower(self):
    return SymBytes([Ite(And(c >= 65, c <= 90), c + 32, c) if isinstance(c, SymInt) else (c + 32 if 65 <= c <= 90 else c) for c in self.b])
  def decode(self, enc='utf-8', errors='strict'):
    if enc.lower().replace('_', '-') in ('latin-1', 'latin1', 'iso-8859-1'):
      s = self.simplified()
      if isinstance(s, bytes): return s.decode('latin-1')
      return SymStr(self)
    if enc.lower().replace('_', '-') in ('utf-8', 'utf8', 'ascii', 'us-ascii'):
      s = self.simplified()
      if isinstance(s, bytes): return s.decode(enc, errors)
      if bool(And(*[(c < 128) for c in self.b if isinstance(c, SymInt)])): return SymStr(self)
      if errors != 'strict' or enc.lower().replace('_', '-') not in ('utf-8', 'utf8'):
        raise Inconclusive("decode(%s) of possibly non-ASCII symbolic bytes" % enc)
      # some byte is >= 0x80: exact UTF-8 well-formedness (RFC 3629) of the whole buffer as one formula, decided once
      if not bool(_utf8_valid(self.b)):
        raise UnicodeDecodeError('utf-8', b'\x80', 0, 1, 'invalid utf-8 (symbolic bytes)')
      return NonAsciiText()
    return self.concretize().decode(enc, errors)
  def join(self, it): raise Inconclusive("SymBytes.join")


class NonAsciiText:
  """result of decoding symbolic bytes that are well-formed UTF-8 with at least one non-ASCII character.  Only its existence is modelled
  (consumers that reject every non-ASCII text, e.g. inet_aton, may take it); any other use is inconclusive."""
  def _no(self, *a, **k): raise Inconclusive("operation on symbolic non-ASCII text")
  __len__ = __getitem__ = __iter__ = __add__ = __radd__ = __eq__ = __ne__ = __hash__ = __str__ = __repr__ = __contains__ = __mod__ = _no
  split = strip = lower = upper = encode = startswith = endswith = find = replace = format = isdigit = count = _no


def _utf8_valid(bs):
  """Bool term: the byte sequence is well-formed UTF-8 (dynamic programme from the end over 1..4-byte forms)"""
  n = len(bs)
  def rng(x, lo, hi): return And(x >= lo, x <= hi)
  valid = [None] * (n + 1)
  valid[n] = True
  for i in range(n - 1, -1, -1):
    b0 = bs[i]; alts = [And(b0 <= 0x7f, valid[i + 1])]
    if i + 1 < n:
      alts.append(And(rng(b0, 0xc2, 0xdf), rng(bs[i + 1], 0x80, 0xbf), valid[i + 2]))
    if i + 2 < n:
      b1, b2 = bs[i + 1], bs[i + 2]; t2 = rng(b2, 0x80, 0xbf)
      alts.append(And(Or(And(b0 == 0xe0, rng(b1, 0xa0, 0xbf)), And(Or(rng(b0, 0xe1, 0xec), rng(b0, 0xee, 0xef)), rng(b1, 0x80, 0xbf)),
                         And(b0 == 0xed, rng(b1, 0x80, 0x9f))), t2, valid[i + 3]))
    if i + 3 < n:
      b1, b2, b3 = bs[i + 1], bs[i + 2], bs[i + 3]
      alts.append(And(Or(And(b0 == 0xf0, rng(b1, 0x90, 0xbf)), And(rng(b0, 0xf1, 0xf3), rng(b1, 0x80, 0xbf)), And(b0 == 0xf4, rng(b1, 0x80, 0x8f))),
                      rng(b2, 0x80, 0xbf), rng(b3, 0x80, 0xbf), valid[i + 4]))
    valid[i] = Or(*alts)
  return valid[0]


import re as _re
_FMT = _re.compile(r'%(?:\((\w+)\))?([-0 +#]*)(\d*)(?:\.(\d+))?([diuxXsrc%])')


DRY = [False]      # dry rendering: check that text *can* be produced (types, argument counts) without forking on digit counts


def dry_render(x):
  """raise what Python would raise when rendering x to text; symbolic numerals are not expanded"""
  if not isinstance(x, SymStr) or x.sb is not None: return
  DRY[0] = True
  try:
    _render(x.opaque)
  finally:
    DRY[0] = False


def _digits(v, base, upper=False):
  """char codes of the numeral of a non-negative (Sym)Int, most significant first; forks on the digit count"""
  if isinstance(v, SymBool): v = lift(v)
  if DRY[0] and isinstance(v, SymInt): return [48]
  if not isinstance(v, (int, SymInt)):
    if hasattr(v, '__index__') and base == 16: v = v.__index__()
    elif hasattr(v, '__int__') and base == 10: v = int(v)
    else: raise TypeError("%%%s format: a real number is required, not %s" % ('x' if base == 16 else 'd', type(v).__name__))
  if not isinstance(v, SymInt):
    t = ('%x' if base == 16 else '%d') % v
    return [ord(c) for c in (t.upper() if upper else t)]
  neg = []
  if v.lo < 0:
    if bool(v < 0): neg = [45]; v = -v
  n = 1
  while not bool(v < base ** n):
    n += 1
    if base ** n > LIM: raise Inconclusive("numeral too wide")
  out = []
  for i in range(n - 1, -1, -1):
    d = (v // (base ** i)) % base if i else v % base
    out.append(Ite(d < 10, d + 48, d + (55 if upper else 87)) if base > 10 else d + 48)
  return neg + out


def _chars(x):
  """char-code list of a str / SymStr / bytes-like used as text"""
  if isinstance(x, SymStr): return list(x._r().b)
  if isinstance(x, str): return [ord(c) for c in x]
  if isinstance(x, (bytes, bytearray)): return list(x)
  if isinstance(x, SymBytes): return list(x.b)
  if isinstance(x, (SymInt, SymBool, int)): return _digits(x, 10)
  if x is None: return [ord(c) for c in 'None']
  from . import sx
  r = sx.str_(x)
  return _chars(r) if isinstance(r, (str, SymStr)) else [ord(c) for c in str(r)]


def _render(op):
  k = op[0]
  if k == '+': return _chars(op[1]) + _chars(op[2])
  if k == 'join':
    out = []
    for n, it in enumerate(op[2]):
      if n: out += _chars(op[1])
      out += _chars(it)
    return out
  if k == 'str' or k == 'repr': return _chars(op[1])
  if k == 'hex': return [48, 120] + _digits(op[1], 16)
  if k == 'chars': return list(op[1])
  if k == 'inet_ntoa':
    out = []
    for n, b in enumerate(op[1]):
      if n: out.append(46)
      out += _digits(b, 10)
    return out
  if k == 'f':
    out = []
    for p in op[1]:
      if type(p) is tuple:
        v, conv, spec = p
        if spec: raise Inconclusive("f-string format spec on symbolic value")
        out += _chars(v)
      else: out += _chars(p)
    return out
  if k == 'format':
    import string
    fmt, args, kwargs = op[1], op[2], op[3]
    out = []; auto = 0
    for lit, field, spec, conv in string.Formatter().parse(fmt):
      out += [ord(c) for c in lit]
      if field is None: continue
      if spec: raise Inconclusive("str.format with a format spec on symbolic value")
      name = field.split('.')[0].split('[')[0]
      if name == '': v = args[auto]; auto += 1
      elif name.isdigit(): v = args[int(name)]
      else: v = kwargs[name]
      if '.' in field or '[' in field: raise Inconclusive("str.format with attribute/index field")
      out += _chars(v)
    return out
  if k == '%':
    fmt, args = op[1], op[2]
    isb = isinstance(fmt, (bytes, SymBytes))
    if isinstance(fmt, (SymStr, SymBytes)): raise Inconclusive("symbolic format string")
    f = fmt.decode('latin-1') if isb else fmt
    if not isinstance(args, tuple) and not isinstance(args, dict): args = (args,)
    out = []; pos = 0; ai = 0
    for m in _FMT.finditer(f):
      out += [ord(c) for c in f[pos:m.start()]]; pos = m.end()
      key, flags, width, prec, conv = m.groups()
      if conv == '%': out.append(37); continue
      if key is not None: a = args[key]
      else:
        if ai >= len(args): raise TypeError("not enough arguments for format string")
        a = args[ai]; ai += 1
      w0 = int(width) if width else 0
      base_ = 16 if conv in 'xX' else 10
      if conv in 'diuxX' and '0' in flags and w0 and isinstance(a, SymInt) and a.lo >= 0 and a.hi < base_ ** w0:
        # zero-padded fixed width that always fits: exactly w0 digits, no fork on the digit count
        cs = []
        for i in range(w0 - 1, -1, -1):
          d = (a // (base_ ** i)) % base_ if i else a % base_
          cs.append(Ite(d < 10, d + 48, d + (55 if conv == 'X' else 87)) if base_ > 10 else d + 48)
      elif conv in 'diu': cs = _digits(a, 10) if isinstance(a, (SymInt, SymBool, int)) else _chars(a)
      elif conv in 'xX': cs = _digits(a, 16, conv == 'X')
      elif conv == 'c': cs = [a] if isinstance(a, (int, SymInt)) else _chars(a)
      else: cs = _chars(a)
      w = int(width) if width else 0
      if len(cs) < w:
        if '-' in flags: cs = cs + [32] * (w - len(cs))
        else: cs = [48 if '0' in flags and conv in 'diuxX' else 32] * (w - len(cs)) + cs
      out += cs
    out += [ord(c) for c in f[pos:]]
    if isinstance(args, tuple) and ai < len(args): raise TypeError("not all arguments converted during string formatting")
    return out
  raise Inconclusive("cannot render symbolic text of kind %r" % (k,))


class SymStr:
  """latin-1 text whose characters may be symbolic.  Created lazily: formatting a symbolic value only records the
  operation (log messages are never rendered); the first operation that needs the characters renders them into a
  SymBytes of char codes, forking on the digit count of variable-width numerals."""
  __slots__ = ('sb', 'opaque')
  def __init__(self, sb=None, opaque=None):
    self.sb = sb; self.opaque = opaque
  def _r(self):
    if self.sb is None:
      if DRY[0]: return SymBytes(_render(self.opaque))
      self.sb = SymBytes(_render(self.opaque)); self.opaque = None
    return self.sb
  def _w(self, sb):
    s = sb.simplified() if isinstance(sb, SymBytes) else sb
    return s.decode('latin-1') if isinstance(s, bytes) else SymStr(sb)
  @staticmethod
  def _b(o):
    if isinstance(o, SymStr): return o._r()
    if isinstance(o, str): return o.encode('latin-1')
    raise TypeError("must be str, not %s" % type(o).__name__)
  def encode(self, enc='utf-8', errors='strict'): return self._r()
  def __len__(self): return len(self._r())
  def __iter__(self): return iter([self._w(SymBytes([c])) for c in self._r().b])
  def __getitem__(self, i):
    r = self._r()[i]
    return self._w(r if isinstance(r, SymBytes) else SymBytes([r]))
  def __eq__(self, o):
    if isinstance(o, (str, SymStr)):
      try: return self._r() == self._b(o)
      except UnicodeEncodeError: return False
    return False
  def __ne__(self, o): return Not(self.__eq__(o))
  def __lt__(self, o): return self._r() < self._b(o)
  def __le__(self, o): return self._r() <= self._b(o)
  def __gt__(self, o): return self._r() > self._b(o)
  def __ge__(self, o): return self._r() >= self._b(o)
  def __hash__(self): return hash(self._r().concretize().decode('latin-1'))
  def __add__(self, o):
    if not isinstance(o, (str, SymStr)): return NotImplemented
    return SymStr(None, ('+', self, o))
  def __radd__(self, o):
    if not isinstance(o, (str, SymStr)): return NotImplemented
    return SymStr(None, ('+', o, self))
  def __mod__(self, o): return SymStr(None, ('%', self, o))
  def __str__(self): return "<symbolic text>"
  __repr__ = __str__
  def __bool__(self): return len(self._r()) > 0
  def __contains__(self, x): return self._r().find(self._b(x)) >= 0
  def find(self, x, *a): return self._r().find(self._b(x), *a)
  def index(self, x, *a): return self._r().index(self._b(x), *a)
  def count(self, x): return self._r().count(self._b(x))
  def startswith(self, x, *a): return self._r().startswith(self._b(x), *a)
  def endswith(self, x): return self._r().endswith(self._b(x))
  _WS = (9, 10, 11, 12, 13, 28, 29, 30, 31, 32, 0x85, 0xa0)       # str.isspace() within latin-1
  def _ws_split(self):
    parts = []; cur = []
    for c in self._r().b:
      ws = (c in self._WS) if isinstance(c, int) else bool(Or(*[c == w for w in self._WS]))
      if ws:
        if cur: parts.append(cur); cur = []
      else: cur.append(c)
    if cur: parts.append(cur)
    return [self._w(SymBytes(p)) for p in parts]
  def split(self, sep=None, maxsplit=-1):
    if sep is None and maxsplit == -1: return self._ws_split()
    if sep is None: raise Inconclusive("whitespace split of symbolic text")
    return [self._w(p) for p in self._r().split(self._b(sep), maxsplit)]
  def rsplit(self, sep=None, maxsplit=-1):
    if sep is None: raise Inconclusive("whitespace split of symbolic text")
    return [self._w(p) for p in self._r().rsplit(self._b(sep), maxsplit)]
  def replace(self, a, b): return self._w(self._r().replace(self._b(a), self._b(b)))
  def strip(self, c=None): return self._w(self._r().strip(None if c is None else self._b(c)))
  def rstrip(self, c=None): return self._w(self._r().rstrip(None if c is None else self._b(c)))
  def lower(self):
    return self._w(SymBytes([Ite(And(c >= 65, c <= 90), c + 32, c) for c in self._r().b]))
  def upper(self):
    return self._w(SymBytes([Ite(And(c >= 97, c <= 122), c - 32, c) for c in self._r().b]))
  def isdigit(self):
    b = self._r().b
    return len(b) > 0 and bool(And(*[And(c >= 48, c <= 57) for c in b]))
  def join(self, it):
    return SymStr(None, ('join', self, list(it)))
  def ljust(self, n, fill=' '): return self._w(self._r().ljust(n, fill.encode('latin-1')))
  def format(self, *a, **k): raise Inconclusive("format() on symbolic text")


def parse_int(s, base=10):
  """int(text, base) over symbolic characters (no whitespace / underscores / prefixes); ValueError paths fork"""
  cs = _chars(s)
  sign = 1
  if cs and isinstance(cs[0], int) and cs[0] in (43, 45):
    sign = -1 if cs[0] == 45 else 1; cs = cs[1:]
  elif cs and isinstance(cs[0], SymInt):
    if bool(cs[0] == 45): sign = -1; cs = cs[1:]
    elif bool(cs[0] == 43): cs = cs[1:]
  if not cs: raise ValueError("invalid literal for int()")
  if base == 0: raise Inconclusive("int(text, 0) on symbolic text")
  v = 0
  ds = []; valid = []
  for c in cs:
    if isinstance(c, int):
      try: d = int(chr(c), 36)
      except ValueError: raise ValueError("invalid literal for int()")
      if d >= base: raise ValueError("invalid literal for int()")
    else:
      # fork-free digit value; validity of the whole numeral is decided once below
      isd = And(c >= 48, c <= min(57, 47 + base))
      if base > 10:
        isl = And(c >= 97, c < 97 + base - 10); isu = And(c >= 65, c < 65 + base - 10)
        d = Ite(isd, c - 48, Ite(isl, c - 87, c - 55))
        valid.append(Or(isd, isl, isu))
      else:
        d = c - 48
        valid.append(isd)
      d = SymInt(d.e, 0, base - 1)
    ds.append(d)
  if valid and not bool(And(*valid)): raise ValueError("invalid literal for int()")
  for d in ds:
    v = v * base + d
  return v * sign
