"""Run-time helpers the AST rewriter (loader.py) routes POX code through.  Every helper falls back to the
original Python operation when no operand is symbolic."""
import sys, builtins, z3
from . import core
from .core import (SymInt, SymBool, SymBytes, SymStr, Inconclusive, Control, lift, is_sym, And, Or, Not, Ite)
from .shims import struct_shim, socket_shim, array_shim, math_shim

_SYM = (SymInt, SymBool, SymBytes, SymStr)


def deep_sym(x, depth=0):
  if isinstance(x, (SymInt, SymBool, SymStr)): return True
  if isinstance(x, SymBytes): return x.symbolic()
  if depth < 3:
    if isinstance(x, (tuple, list)):
      for y in x:
        if deep_sym(y, depth + 1): return True
    elif isinstance(x, dict):
      for y in x.values():
        if deep_sym(y, depth + 1): return True
    elif hasattr(x, '__dict__') and type(x).__module__.startswith('pox.'):
      for y in vars(x).values():
        if deep_sym(y, depth + 2): return True
  return False


# ---- formatting -----------------------------------------------------------------------------
def mod(a, b):
  if type(a) is bytes and deep_sym(b):
    return SymBytes(core._render(('%', a, b)))
  if type(a) is str or type(a) is bytes:
    if deep_sym(b): return SymStr(None, ('%', a, b))
    try:
      return a % b
    except TypeError as e:
      if 'returned non-string' in str(e): return SymStr(None, ('%', a, b))
      raise
  return a % b


def fstr(parts):
  out = []
  for p in parts:
    if type(p) is tuple:
      v, conv, spec = p
      if deep_sym(v) or isinstance(spec, SymStr): return SymStr(None, ('f', parts))
      if conv == 114: v = repr_(v)
      elif conv == 115: v = str_(v)
      elif conv == 97: v = ascii(v)
      if isinstance(v, SymStr): return SymStr(None, ('f', parts))
      try:
        out.append(format(v, spec or ''))
      except TypeError as e:
        if 'returned non-string' in str(e): return SymStr(None, ('f', parts))
        raise
    elif isinstance(p, SymStr): return SymStr(None, ('f', parts))
    else: out.append(p)
  return ''.join(out)


def format_(s, args, kwargs):
  if type(s) is str and (deep_sym(args) or deep_sym(kwargs)): return SymStr(None, ('format', s, args, kwargs))
  return s.format(*args, **kwargs)


def str_(*a, **kw):
  if len(a) == 1 and not kw:
    x = a[0]
    if isinstance(x, SymStr): return x
    if isinstance(x, (SymInt, SymBool)): return SymStr(None, ('str', x))
    if isinstance(x, SymBytes): return SymStr(None, ('str', x))
    try:
      return str(x)
    except TypeError as e:
      if 'returned non-string' in str(e): return type(x).__str__(x)
      raise
  return str(*a, **kw)


def repr_(x):
  if isinstance(x, _SYM): return SymStr(None, ('repr', x))
  try:
    return repr(x)
  except TypeError as e:
    if 'returned non-string' in str(e): return type(x).__repr__(x)
    raise


def hex_(x):
  if isinstance(x, (SymInt, SymBool)): return SymStr(None, ('hex', x))
  return hex(x)


# ---- boolean structure (state merging) ----------------------------------------------------------
def _mergeable(v):
  return isinstance(v, (int, SymInt, SymBool))


def not_(a):
  if isinstance(a, SymBool): return SymBool(z3.Not(a.e))
  if isinstance(a, SymInt): return a == 0
  return not a


def and_(a, fb, pure):
  if not isinstance(a, (SymInt, SymBool)): return a and fb()
  if pure:
    c = a.concrete() if isinstance(a, SymInt) else None
    if c is not None: return a if c == 0 else fb()
    try:
      b = fb()
    except Control: raise
    except Exception:
      return fb() if a else a
    if isinstance(a, SymBool) and isinstance(b, (SymBool, bool)): return And(a, b)
    if _mergeable(b):
      # a and b == b if a else a
      return Ite(a if isinstance(a, SymBool) else (a != 0), b, a)
    return b if a else a
  return fb() if a else a


def or_(a, fb, pure):
  if not isinstance(a, (SymInt, SymBool)): return a or fb()
  if pure:
    c = a.concrete() if isinstance(a, SymInt) else None
    if c is not None: return a if c != 0 else fb()
    try:
      b = fb()
    except Control: raise
    except Exception:
      return a if a else fb()
    if isinstance(a, SymBool) and isinstance(b, (SymBool, bool)): return Or(a, b)
    if _mergeable(b):
      return Ite(a if isinstance(a, SymBool) else (a != 0), a, b)
    return a if a else b
  return a if a else fb()


def ifexp(c, fa, fb, pure):
  if not isinstance(c, (SymInt, SymBool)): return fa() if c else fb()
  if pure:
    try:
      a = fa(); b = fb()
    except Control: raise
    except Exception:
      return fa() if c else fb()
    if a is b: return a
    if _mergeable(a) and _mergeable(b): return Ite(c, a, b)
    return a if c else b
  return fa() if c else fb()


def in_(x, c):
  if isinstance(x, (SymInt, SymBool)):
    if isinstance(c, (tuple, list, set, frozenset, dict, range)):
      if isinstance(c, range): return And(x >= c.start, x < c.stop) if c.step == 1 else Or(*[(x == k) for k in c])
      ks = [k for k in c if isinstance(k, (int, SymInt, SymBool))]
      return Or(*[(x == k) for k in ks])
  return x in c


def notin_(x, c):
  return not_(in_(x, c))


# ---- containers -------------------------------------------------------------------------------
def getitem(obj, i):
  if type(i) is SymInt or type(i) is SymBool:
    i = lift(i)
    c = i.concrete()
    if c is not None: return obj[c]
    if isinstance(obj, (list, tuple, bytes, bytearray, str, range)):
      n = len(obj)
      for k in range(n):
        if Or(i == k, i == k - n): return obj[k]
      raise IndexError("index out of range")
    if isinstance(obj, dict) and not hasattr(obj, '_sx_symdict'):
      for k in list(obj):
        if isinstance(k, int) and (i == k): return obj[k]
      raise KeyError(i)
  return obj[i]


def get(obj, *args):
  if args and (type(args[0]) is SymInt or type(args[0]) is SymBool) and type(obj) is dict:
    i = lift(args[0])
    c = i.concrete()
    if c is not None: return obj.get(c, *args[1:])
    for k in list(obj):
      if isinstance(k, int) and (i == k): return obj[k]
    return args[1] if len(args) > 1 else None
  return obj.get(*args)


def join(sep, it):
  if isinstance(sep, (bytes, SymBytes)):
    it = list(it)
    if any(isinstance(x, SymBytes) for x in it) or isinstance(sep, SymBytes):
      out = []
      for n, x in enumerate(it):
        if n: out.extend(sep)
        if not isinstance(x, (bytes, bytearray, SymBytes)): raise TypeError("sequence item: expected a bytes-like object")
        out.extend(x)
      return SymBytes(out)
    return sep.join(it)
  if isinstance(sep, (str, SymStr)):
    it = list(it)
    if isinstance(sep, SymStr) or any(isinstance(x, SymStr) for x in it): return SymStr(None, ('join', sep, it))
    return sep.join(it)
  return sep.join(it)


# ---- builtins -----------------------------------------------------------------------------------
def int_(*a, **kw):
  if a:
    x = a[0]
    if isinstance(x, SymInt): return x
    if isinstance(x, SymBool): return lift(x)
    if isinstance(x, (SymStr, SymBytes)):
      if isinstance(x, SymBytes) and not x.symbolic(): return int(x.concretize(), *a[1:], **kw)
      base = a[1] if len(a) > 1 else kw.get('base', 10)
      return core.parse_int(x, base)
  return int(*a, **kw)


def bool_(*a):
  if a:
    x = a[0]
    if isinstance(x, SymBool): return x
    if isinstance(x, SymInt): return x != 0
  return bool(*a)


def float_(*a):
  if a and isinstance(a[0], (SymInt, SymBool)): raise Inconclusive("float() of a symbolic integer")
  return float(*a)


def bytes_(*a, **kw):
  if len(a) == 1 and not kw:
    x = a[0]
    if isinstance(x, SymBytes): return x
    if isinstance(x, SymInt): return bytes(int(x))
    if isinstance(x, SymByteArray): return SymBytes(x.b)
    if not isinstance(x, (bytes, bytearray, str, int, memoryview)) and hasattr(x, '__iter__'):
      x = list(x)        # generators too: a C-level bytes() would concretise every symbolic item
      if any(isinstance(y, (SymInt, SymBool)) for y in x):
        return SymBytes([lift(y) if isinstance(y, SymBool) else y for y in x])
      return bytes(x)
  return bytes(*a, **kw)


class SymByteArray(SymBytes):
  """mutable variant"""
  __slots__ = ()
  def __iadd__(self, o):
    self.b.extend(list(o)); return self
  def extend(self, o): self.b.extend(list(o))
  def append(self, x): self.b.append(x)
  def __setitem__(self, i, v):
    if isinstance(i, slice): self.b[i] = list(v)
    else: self.b[i] = v
  def __delitem__(self, i): del self.b[i]
  def __getitem__(self, i):
    if isinstance(i, slice): return SymByteArray(self.b[i])
    return self.b[i]


def bytearray_(*a, **kw):
  if len(a) == 1 and not kw:
    x = a[0]
    if isinstance(x, SymBytes): return SymByteArray(x.b)
    if not isinstance(x, (bytes, bytearray, str, int, memoryview)) and hasattr(x, '__iter__'):
      x = list(x)
      if any(isinstance(y, (SymInt, SymBool)) for y in x): return SymByteArray(x)
      return bytearray(x)
  return bytearray(*a, **kw)


def ord_(c):
  if isinstance(c, SymBytes):
    if len(c) != 1: raise TypeError("ord() expected a character")
    return c.b[0]
  if isinstance(c, SymStr):
    if c.sb is None or len(c.sb) != 1: raise Inconclusive("ord of symbolic text")
    return c.sb.b[0]
  return ord(c)


def chr_(x):
  if isinstance(x, SymInt):
    if x.lo < 0 or x.hi > 255: raise Inconclusive("chr() of wide symbolic int")
    return SymStr(SymBytes([x]))
  return chr(x)


def len_(x):
  return len(x)


_TYPEMAP = ((SymInt, 0), (SymBool, True), (SymByteArray, bytearray()), (SymBytes, b''), (SymStr, ''))

def isinstance_(o, t):
  for cls, rep in _TYPEMAP:
    if type(o) is cls: return isinstance(rep, t)
  return isinstance(o, t)


def type_(*a):
  if len(a) == 1:
    for cls, rep in _TYPEMAP:
      if type(a[0]) is cls: return type(rep)
  return type(*a)


def min_(*a, **kw):
  if len(a) == 2 and not kw and (isinstance(a[0], (SymInt, SymBool)) or isinstance(a[1], (SymInt, SymBool))) \
     and _mergeable(a[0]) and _mergeable(a[1]):
    return Ite(lift(a[1]) < lift(a[0]), a[1], a[0])
  return min(*a, **kw)


def max_(*a, **kw):
  if len(a) == 2 and not kw and (isinstance(a[0], (SymInt, SymBool)) or isinstance(a[1], (SymInt, SymBool))) \
     and _mergeable(a[0]) and _mergeable(a[1]):
    return Ite(lift(a[1]) > lift(a[0]), a[1], a[0])
  return max(*a, **kw)


def sum_(it, start=0):
  r = start
  for x in it: r = r + x
  return r


def reraise_control():
  e = sys.exc_info()[1]
  if isinstance(e, Control):
    eng = core.Engine.cur
    if eng is not None: eng.poison(e)
    raise e
