"""Run-time helpers the AST rewriter (loader.py) routes POX code through.  Every helper falls back to the
original Python operation when no operand is symbolic."""
import sys, builtins, z3
from . import core
from .core import (SymInt, SymBool, SymBytes, SymStr, Inconclusive, Control, lift, is_sym, And, Or, Not, Ite)
from .shims import struct_shim, socket_shim, array_shim, math_shim

_SYM = (SymInt, SymBool, SymBytes, SymStr)


def deep_sym(x, depth=0):
  if isinstance(x, (SymInt, SymBool, SymStr)): return True
  if isinstance(x, SymBytes): return x.symbolic()
  if depth < 3:
    if isinstance(x, (tuple, list)):
      for y in x:
        if deep_sym(y, depth + 1): return True
    elif isinstance(x, dict):
      for y in x.values():
        if deep_sym(y, depth + 1): return True
    elif hasattr(x, '__dict__') and type(x).__module__.startswith('pox.'):
      for y in vars(x).values():
        if deep_sym(y, depth + 2): return True
  return False


# ---- formatting -----------------------------------------------------------------------------
def mod(a, b):
  if type(a) is bytes and deep_sym(b):
    return SymBytes(core._render(('%', a, b)))
  if type(a) is str or type(a) is bytes:
    if deep_sym(b): return SymStr(None, ('%', a, b))
    try:
      return a % b
    except TypeError as e:
      if 'returned non-string' in str(e): return SymStr(None, ('%', a, b))
      raise
  return a % b


def fstr(parts):
  out = []
  for p in parts:
    if type(p) is tuple:
      v, conv, spec = p
      if deep_sym(v) or isinstance(spec, SymStr): return SymStr(None, ('f', parts))
      if conv == 114: v = repr_(v)
      elif conv == 115: v = str_(v)
      elif conv == 97: v = ascii(v)
      if isinstance(v, SymStr): return SymStr(None, ('f', parts))
      try:
        out.append(format(v, spec or ''))
      except TypeError as e:
        if 'returned non-string' in str(e): return SymStr(None, ('f', parts))
        raise
    elif isinstance(p, SymStr): return SymStr(None, ('f', parts))
    else: out.append(p)
  return ''.join(out)


def format_(s, args, kwargs):
  if type(s) is str and (deep_sym(args) or deep_sym(kwargs)): return SymStr(None, ('format', s, args, kwargs))
  return s.format(*args, **kwargs)


def str_(*a, **kw):
  if len(a) == 1 and not kw:
    x = a[0]
    if isinstance(x, SymStr): return x
    if isinstance(x, (SymInt, SymBool)): return SymStr(None, ('str', x))
    if isinstance(x, SymBytes): return SymStr(None, ('str', x))
    try:
      return str(x)
    except TypeError as e:
      if 'returned non-string' in str(e): return type(x).__str__(x)
      raise
  return str(*a, **kw)


def repr_(x):
  if isinstance(x, _SYM): return SymStr(None, ('repr', x))
  try:
    return repr(x)
  except TypeError as e:
    if 'returned non-string' in str(e): return type(x).__repr__(x)
    raise


def hex_(x):
  if isinstance(x, (SymInt, SymBool)): return SymStr(None, ('hex', x))
  return hex(x)


# ---- boolean structure (state merging) ----------------------------------------------------------
def _mergeable(v):
  return isinstance(v, (int, SymInt, SymBool))


def not_(a):
  if isinstance(a, SymBool): return SymBool(z3.Not(a.e))
  if isinstance(a, SymInt): return a == 0
  return not a


def and_(a, fb, pure):
  if not isinstance(a, (SymInt, SymBool)): return a and fb()
  if pure:
    c = a.concrete() if isinstance(a, SymInt) else None
    if c is not None: return a if c == 0 else fb()
    try:
      b = fb()
    except Control: raise
    except Exception:
      return fb() if a else a
    if isinstance(a, SymBool) and isinstance(b, (SymBool, bool)): return And(a, b)
    if _mergeable(b):
      # a and b == b if a else a
      return Ite(a if isinstance(a, SymBool) else (a != 0), b, a)
    return b if a else a
  return fb() if a else a


def or_(a, fb, pure):
  if not isinstance(a, (SymInt, SymBool)): return a or fb()
  if pure:
    c = a.concrete() if isinstance(a, SymInt) else None
    if c is not None: return a if c != 0 else fb()
    try:
      b = fb()
    except Control: raise
    except Exception:
      return a if a else fb()
    if isinstance(a, SymBool) and isinstance(b, (SymBool, bool)): return Or(a, b)
    if _mergeable(b):
      return Ite(a if isinstance(a, SymBool) else (a != 0), a, b)
    return a if a else b
  return a if a else fb()


def ifexp(c, fa, fb, pure):
  if not isinstance(c, (SymInt, SymBool)): return fa() if c else fb()
  if pure:
    try:
      a = fa(); b = fb()
    except Control: raise
    except Exception:
      return fa() if c else fb()
    if a is b: return a
    if _mergeable(a) and _mergeable(b): return Ite(c, a, b)
    return a if c else b
  return fa() if c else fb()


def in_(x, c):
  if isinstance(x, (SymInt, SymBool)):
    if type(c) in (tuple, list, set, frozenset, dict, range):        # exact types only: subclasses may override membership
      if isinstance(c, range): return And(x >= c.start, x < c.stop) if c.step == 1 else Or(*[(x == k) for k in c])
      ks = [k for k in c if isinstance(k, (int, SymInt, SymBool))]
      return Or(*[(x == k) for k in ks])
  return x in c


def notin_(x, c):
  return not_(in_(x, c))


# ---- containers -------------------------------------------------------------------------------
def getitem(obj, i):
  if type(i) is SymInt or type(i) is SymBool:
    i = lift(i)
    c = i.concrete()
    if c is not None: return obj[c]
    if isinstance(obj, (list, tuple, bytes, bytearray, str, range)):
      n = len(obj)
      for k in range(n):
        if Or(i == k, i == k - n): return obj[k]
      raise IndexError("index out of range")
    if isinstance(obj, dict) and not hasattr(obj, '_sx_symdict'):
      for k in list(obj):
        if isinstance(k, int) and (i == k): return obj[k]
      raise KeyError(i)
  return obj[i]


def get(obj, *args):
  if args and (type(args[0]) is SymInt or type(args[0]) is SymBool) and type(obj) is dict:
    i = lift(args[0])
    c = i.concrete()
    if c is not None: return obj.get(c, *args[1:])
    for k in list(obj):
      if isinstance(k, int) and (i == k): return obj[k]
    return args[1] if len(args) > 1 else None
  return obj.get(*args)


def join(sep, it):
  if isinstance(sep, (bytes, SymBytes)):
    it = list(it)
    if any(isinstance(x, SymBytes) for x in it) or isinstance(sep, SymBytes):
      out = []
      for n, x in enumerate(it):
        if n: out.extend(sep)
        if not isinstance(x, (bytes, bytearray, SymBytes)): raise TypeError("sequence item: expected a bytes-like object")
        out.extend(x)
      return SymBytes(out)
    return sep.join(it)
  if isinstance(sep, (str, SymStr)):
    it = list(it)
    if isinstance(sep, SymStr) or any(isinstance(x, SymStr) for x in it): return SymStr(None, ('join', sep, it))
    return sep.join(it)
  return sep.join(it)


# ---- builtins -----------------------------------------------------------------------------------
def int_(*a, **kw):
  if a:
    x = a[0]
    if isinstance(x, SymInt): return x
    if isinstance(x, SymBool): return lift(x)
    if isinstance(x, (SymStr, SymBytes)):
      if isinstance(x, SymBytes) and not x.symbolic(): return int(x.concretize(), *a[1:], **kw)
      base = a[1] if len(a) > 1 else kw.get('base', 10)
      return core.parse_int(x, base)
  return int(*a, **kw)


def bool_(*a):
  if a:
    x = a[0]
    if isinstance(x, SymBool): return x
    if isinstance(x, SymInt): return x != 0
  return bool(*a)


def float_(*a):
  if a and isinstance(a[0], (SymInt, SymBool)): raise Inconclusive("float() of a symbolic integer")
  return float(*a)


def bytes_(*a, **kw):
  if len(a) == 1 and not kw:
    x = a[0]
    if isinstance(x, SymBytes): return x
    if isinstance(x, SymInt): return bytes(int(x))
    if isinstance(x, SymByteArray): return SymBytes(x.b)
    if not isinstance(x, (bytes, bytearray, str, int, memoryview)) and hasattr(x, '__iter__'):
      x = list(x)        # generators too: a C-level bytes() would concretise every symbolic item
      if any(isinstance(y, (SymInt, SymBool)) for y in x):
        return SymBytes([lift(y) if isinstance(y, SymBool) else y for y in x])
      return bytes(x)
  return bytes(*a, **kw)


class SymByteArray(SymBytes):
  """mutable variant"""
  __slots__ = ()
  def __iadd__(self, o):
    self.b.extend(list(o)); return self
  def extend(self, o): self.b.extend(list(o))
  def append(self, x): self.b.append(x)
  def __setitem__(self, i, v):
    if isinstance(i, slice): self.b[i] = list(v)
    else: self.b[i] = v
  def __delitem__(self, i): del self.b[i]
  def __getitem__(self, i):
    if isinstance(i, slice): return SymByteArray(self.b[i])
    return self.b[i]


def bytearray_(*a, **kw):
  if len(a) == 1 and not kw:
    x = a[0]
    if isinstance(x, SymBytes): return SymByteArray(x.b)
    if not isinstance(x, (bytes, bytearray, str, int, memoryview)) and hasattr(x, '__iter__'):
      x = list(x)
      if any(isinstance(y, (SymInt, SymBool)) for y in x): return SymByteArray(x)
      return bytearray(x)
  return bytearray(*a, **kw)


def ord_(c):
  if isinstance(c, SymBytes):
    if len(c) != 1: raise TypeError("ord() expected a character")
    return c.b[0]
  if isinstance(c, SymStr):
    if c.sb is None or len(c.sb) != 1: raise Inconclusive("ord of symbolic text")
    return c.sb.b[0]
  if isinstance(c, (SymInt, SymBool)):
    raise TypeError("ord() expected string of length 1, but int found")      # exactly what ord(<int>) does
  return ord(c)


def chr_(x):
  if isinstance(x, SymInt):
    if x.lo < 0 or x.hi > 255: raise Inconclusive("chr() of wide symbolic int")
    return SymStr(SymBytes([x]))
  return chr(x)


def len_(x):
  # objects of an environment model may have a *symbolic* length (e.g. what a model os.read() returned): they say so with __symlen__
  f = getattr(type(x), '__symlen__', None)
  if f is not None: return f(x)
  return len(x)


_TYPEMAP = ((SymInt, 0), (SymBool, True), (SymByteArray, bytearray()), (SymBytes, b''), (SymStr, ''))

def isinstance_(o, t):
  for cls, rep in _TYPEMAP:
    if type(o) is cls: return isinstance(rep, t)
  return isinstance(o, t)


def type_(*a):
  if len(a) == 1:
    t = type(a[0])
    for cls, rep in _TYPEMAP:
      if t is cls: return type(rep)
    if t is SymDict: return dict
    if t is SymSet: return set
  return type(*a)


def min_(*a, **kw):
  if len(a) == 2 and not kw and (isinstance(a[0], (SymInt, SymBool)) or isinstance(a[1], (SymInt, SymBool))) \
     and _mergeable(a[0]) and _mergeable(a[1]):
    return Ite(lift(a[1]) < lift(a[0]), a[1], a[0])
  return min(*a, **kw)


def max_(*a, **kw):
  if len(a) == 2 and not kw and (isinstance(a[0], (SymInt, SymBool)) or isinstance(a[1], (SymInt, SymBool))) \
     and _mergeable(a[0]) and _mergeable(a[1]):
    return Ite(lift(a[1]) > lift(a[0]), a[1], a[0])
  return max(*a, **kw)


def sum_(it, start=0):
  r = start
  for x in it: r = r + x
  return r


def reraise_control():
  e = sys.exc_info()[1]
  if isinstance(e, Control):
    eng = core.Engine.cur
    if eng is not None: eng.poison(e)
    raise e
  note_exc()


def note_exc():
  e = sys.exc_info()[1]
  if isinstance(e, (TypeError, AttributeError)):
    m = str(e)
    if 'Sym' in m and ('SymInt' in m or 'SymBytes' in m or 'SymStr' in m or 'SymBool' in m or 'SymDict' in m or 'SymSet' in m):
      eng = core.Engine.cur
      if eng is not None and eng.poisoned is None:
        eng.poison(Inconclusive("a POX exception handler swallowed a proxy type error: %s: %s" % (type(e).__name__, m[:200])))


# ---- containers keyed by possibly-symbolic values ---------------------------------------------------
def _symkey(k):
  """must this key be compared by == (forking on aliasing) instead of being hashed?"""
  if isinstance(k, (SymInt, SymBool, SymStr)): return True
  if isinstance(k, SymBytes): return True
  if isinstance(k, tuple): return any(_symkey(x) for x in k)
  if isinstance(k, (int, str, bytes, float, type(None), type)): return False
  if type(k).__module__.startswith('pox.'): return deep_sym(k)
  return False


def _same(a, b):
  if a is b: return True
  try:
    return bool(a == b)
  except Control: raise
  except Exception:
    return False


class SymDict(dict):
  """dict whose concrete hashable keys live in the native table and whose symbolic keys live in an association list;
  every lookup that involves a symbolic key compares with == (one fork per possible alias).  Distinctness of the
  stored keys is established at insertion, so len() and iteration are concrete."""
  _sx_symdict = True
  def __init__(self, *a, **kw):
    dict.__init__(self)
    self._sx = []
    if a or kw: self.update(*a, **kw)
  def _find(self, k):
    """-> ('n', key) | ('s', index) | None"""
    if not _symkey(k):
      try:
        if dict.__contains__(self, k): return ('n', k)
      except TypeError:
        pass
      for i, (sk, _) in enumerate(self._sx):
        if _same(sk, k): return ('s', i)
      return None
    for i, (sk, _) in enumerate(self._sx):
      if _same(sk, k): return ('s', i)
    for nk in list(dict.keys(self)):
      if type(nk) in (int, bool, str, bytes, tuple) or type(nk).__module__.startswith('pox.'):
        if _same(k, nk): return ('n', nk)
    return None
  def __getitem__(self, k):
    f = self._find(k)
    if f is None:
      if hasattr(type(self), '__missing__'): return type(self).__missing__(self, k)
      raise KeyError(k)
    return dict.__getitem__(self, f[1]) if f[0] == 'n' else self._sx[f[1]][1]
  def __setitem__(self, k, v):
    f = self._find(k)
    if f is None:
      if _symkey(k): self._sx.append((k, v))
      else: dict.__setitem__(self, k, v)
    elif f[0] == 'n': dict.__setitem__(self, f[1], v)
    else: self._sx[f[1]] = (self._sx[f[1]][0], v)
  def __delitem__(self, k):
    f = self._find(k)
    if f is None: raise KeyError(k)
    if f[0] == 'n': dict.__delitem__(self, f[1])
    else: del self._sx[f[1]]
  def __contains__(self, k): return self._find(k) is not None
  def get(self, k, d=None):
    f = self._find(k)
    if f is None: return d
    return dict.__getitem__(self, f[1]) if f[0] == 'n' else self._sx[f[1]][1]
  def pop(self, k, *d):
    f = self._find(k)
    if f is None:
      if d: return d[0]
      raise KeyError(k)
    if f[0] == 'n': return dict.pop(self, f[1])
    return self._sx.pop(f[1])[1]
  def setdefault(self, k, d=None):
    f = self._find(k)
    if f is None: self[k] = d; return d
    return dict.__getitem__(self, f[1]) if f[0] == 'n' else self._sx[f[1]][1]
  def update(self, *a, **kw):
    if a:
      o = a[0]
      it = o.items() if hasattr(o, 'keys') else o
      for k, v in it: self[k] = v
    for k, v in kw.items(): self[k] = v
  def __len__(self): return dict.__len__(self) + len(self._sx)
  def __iter__(self): return iter(list(dict.keys(self)) + [k for k, _ in self._sx])
  def keys(self): return list(self)
  def values(self): return list(dict.values(self)) + [v for _, v in self._sx]
  def items(self): return list(dict.items(self)) + list(self._sx)
  def clear(self): dict.clear(self); del self._sx[:]
  def copy(self): return SymDict(self.items())
  def popitem(self):
    if self._sx: return self._sx.pop()
    return dict.popitem(self)
  def __bool__(self): return len(self) > 0
  def __eq__(self, o):
    if not isinstance(o, dict) or len(o) != len(self): return False
    for k, v in self.items():
      if k not in o or not _same(o[k], v): return False
    return True
  def __ne__(self, o): return not self.__eq__(o)
  __hash__ = None
  def __repr__(self): return "SymDict(%r)" % (self.items(),)


class SymSet(set):
  """set counterpart of SymDict"""
  _sx_symset = True
  def __init__(self, it=()):
    set.__init__(self)
    self._sx = []
    for x in it: self.add(x)
  def _find(self, x):
    if not _symkey(x):
      try:
        if set.__contains__(self, x): return ('n', x)
      except TypeError:
        pass
      for i, y in enumerate(self._sx):
        if _same(y, x): return ('s', i)
      return None
    for i, y in enumerate(self._sx):
      if _same(y, x): return ('s', i)
    for y in list(set.__iter__(self)):
      if type(y) in (int, bool, str, bytes, tuple) or type(y).__module__.startswith('pox.'):
        if _same(x, y): return ('n', y)
    return None
  def add(self, x):
    if self._find(x) is None:
      if _symkey(x): self._sx.append(x)
      else:
        try: set.add(self, x)
        except TypeError: self._sx.append(x)
  def discard(self, x):
    f = self._find(x)
    if f is None: return
    if f[0] == 'n': set.discard(self, f[1])
    else: del self._sx[f[1]]
  def remove(self, x):
    if self._find(x) is None: raise KeyError(x)
    self.discard(x)
  def __contains__(self, x): return self._find(x) is not None
  def __len__(self): return set.__len__(self) + len(self._sx)
  def __iter__(self): return iter(sorted(set.__iter__(self), key=_order) + list(self._sx))
  def __bool__(self): return len(self) > 0
  def clear(self): set.clear(self); del self._sx[:]
  def copy(self): return SymSet(list(self))
  def update(self, *its):
    for it in its:
      for x in list(it): self.add(x)
  def difference_update(self, *its):
    for it in its:
      for x in list(it): self.discard(x)
  def intersection_update(self, *its):
    for it in its:
      keep = SymSet(it)
      for x in list(self):
        if x not in keep: self.discard(x)
  def union(self, *its):
    r = self.copy(); r.update(*its); return r
  def difference(self, *its):
    r = self.copy(); r.difference_update(*its); return r
  def intersection(self, *its):
    r = self.copy(); r.intersection_update(*its); return r
  def issubset(self, o): return all(x in o for x in self)
  def issuperset(self, o): return all(x in self for x in o)
  def pop(self):
    if self._sx: return self._sx.pop()
    return set.pop(self)
  __or__ = lambda s, o: s.union(o)
  __and__ = lambda s, o: s.intersection(o)
  __sub__ = lambda s, o: s.difference(o)
  def __ior__(s, o): s.update(o); return s
  def __iand__(s, o): s.intersection_update(o); return s
  def __isub__(s, o): s.difference_update(o); return s
  def __eq__(self, o):
    if not isinstance(o, (set, frozenset)) or len(o) != len(self): return False
    return all(x in o for x in self)
  def __ne__(self, o): return not self.__eq__(o)
  __hash__ = None
  def __repr__(self): return "SymSet(%r)" % (list(self),)


def _order(x):
  """deterministic iteration order for the native part (re-executions must see the same sequence: no id()-based order)"""
  return (type(x).__name__, repr(x) if isinstance(x, (int, str, bytes, tuple, float)) else getattr(x, '__name__', '') or str(getattr(x, 'ID', '')))


def set_(*a):
  return SymSet(*a)


def dict_(*a, **kw):
  return SymDict(*a, **kw)


def range_(*a):
  """range() with a symbolic bound iterates lazily: one solver-decided 'continue?' per iteration instead of
  concretising the bound up front (loops over untrusted counts usually stop early on truncated data)"""
  if not any(isinstance(x, (SymInt, SymBool)) for x in a): return range(*a)
  if len(a) == 1: start, stop, step = 0, a[0], 1
  elif len(a) == 2: start, stop, step = a[0], a[1], 1
  else: start, stop, step = a
  if isinstance(step, (SymInt, SymBool)):
    step = int(step)
  if step == 0: raise ValueError("range() arg 3 must not be zero")
  def gen():
    i = start
    n = 0
    while bool(i < stop) if step > 0 else bool(i > stop):
      yield i
      i = i + step
      n += 1
      if n > 4096: raise Inconclusive("symbolic range longer than 4096 iterations")
  return gen()
