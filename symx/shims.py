"""Bit-precise models of the C-level library calls POX makes on wire data: struct, socket byte-order
helpers, array.array('H'|'B').  Every function delegates to the real one when no argument is symbolic.
Validated differentially against the real modules by selftest.py."""
import struct as _struct, socket as _socket, array as _array, sys, z3
from . import core
from .core import SymInt, SymBool, SymBytes, Inconclusive, lift, is_sym

LITTLE = sys.byteorder == 'little'
_NATIVE_SZ = {c: _struct.calcsize(c) for c in 'bBhHiIlLqQnNP?c'}
_STD_SZ = {'b': 1, 'B': 1, 'h': 2, 'H': 2, 'i': 4, 'I': 4, 'l': 4, 'L': 4, 'q': 8, 'Q': 8, '?': 1, 'c': 1}
_SIGNED = 'bhilqn'


def _has_sym(args):
  for a in args:
    if isinstance(a, (SymInt, SymBool)): return True
    if isinstance(a, SymBytes): return True
  return False


def _layout(fmt):
  """-> (order, [(code, size, offset)], total) ; 's'/'x'/'p' have size = count"""
  if isinstance(fmt, bytes): fmt = fmt.decode('ascii')
  fmt = fmt.replace(' ', '')
  prefix = '@'
  if fmt and fmt[0] in '@=<>!': prefix, fmt = fmt[0], fmt[1:]
  native = prefix == '@'
  order = ('little' if LITTLE else 'big') if prefix in '@=' else ('little' if prefix == '<' else 'big')
  szs = _NATIVE_SZ if native else _STD_SZ
  items = []; i = 0; off = 0; sofar = prefix if not native else ''
  while i < len(fmt):
    j = i
    while fmt[j].isdigit(): j += 1
    cnt = int(fmt[i:j]) if j > i else 1
    c = fmt[j]; i = j + 1
    if c in 'sxp':
      if c == 'p': raise Inconclusive("struct 'p' format")
      reps = [(c, cnt)]
    else:
      if c not in szs: raise _struct.error("bad char in struct format")
      reps = [(c, szs[c])] * cnt
    for code, size in reps:
      if native and code not in 'sx':
        al = size
        off = (off + al - 1) // al * al
      items.append((code, size, off))
      off += size
  total = off
  assert total == _struct.calcsize((prefix if prefix != '@' else '') + fmt), (fmt, total)
  return order, items, total


_layout_cache = {}
def layout(fmt):
  r = _layout_cache.get(fmt)
  if r is None: r = _layout_cache[fmt] = _layout(fmt)
  return r


class StructShim:
  error = _struct.error
  Struct = _struct.Struct

  @staticmethod
  def calcsize(fmt):
    return _struct.calcsize(fmt)

  @staticmethod
  def pack(fmt, *args):
    if isinstance(fmt, core.SymStr): raise Inconclusive("symbolic struct format")
    if not _has_sym(args): return _struct.pack(fmt, *args)
    order, items, total = layout(fmt)
    out = [0] * total; ai = 0
    nvals = sum(1 for c, _, _ in items if c != 'x')
    if nvals != len(args): raise _struct.error("pack expected %d items for packing (got %d)" % (nvals, len(args)))
    for c, size, off in items:
      if c == 'x': continue
      v = args[ai]; ai += 1
      if c == 's':
        if not isinstance(v, (bytes, bytearray, SymBytes)): raise _struct.error("argument for 's' must be a bytes object")
        bs = list(v[:size]); out[off:off + size] = bs + [0] * (size - len(bs)); continue
      if c == 'c':
        if not isinstance(v, (bytes, SymBytes)) or len(v) != 1: raise _struct.error("char format requires a bytes object of length 1")
        out[off] = v[0]; continue
      if c == '?':
        out[off] = core.Ite(v if isinstance(v, SymBool) else (lift(v) != 0), 1, 0) if isinstance(v, (SymBool, SymInt)) else int(bool(v)); continue
      signed = c in _SIGNED
      lo, hi = (-(1 << (8 * size - 1)), (1 << (8 * size - 1)) - 1) if signed else (0, (1 << (8 * size)) - 1)
      if isinstance(v, SymBool): v = lift(v)
      if isinstance(v, SymInt):
        if v.lo < lo or v.hi > hi:
          if not core.And(v >= lo, v <= hi): raise _struct.error("argument out of range")
        bs = [core.byte_of(v, i) for i in range(size)]
      else:
        if not isinstance(v, int):
          if hasattr(v, '__index__'): v = v.__index__()
          else: raise _struct.error("required argument is not an integer")
        if not (lo <= v <= hi): raise _struct.error("argument out of range")
        u = v & ((1 << (8 * size)) - 1)
        bs = [(u >> (8 * i)) & 255 for i in range(size)]
      if order == 'big': bs.reverse()
      out[off:off + size] = bs
    return SymBytes(out)

  @staticmethod
  def unpack_from(fmt, buffer, offset=0):
    if isinstance(offset, SymInt): offset = int(offset)
    if not isinstance(buffer, SymBytes): return _struct.unpack_from(fmt, buffer, offset)
    order, items, total = layout(fmt)
    if offset < 0: offset += len(buffer)
    if offset < 0 or len(buffer) - offset < total:
      raise _struct.error("unpack_from requires a buffer of at least %d bytes" % (total + offset))
    res = []
    for c, size, off in items:
      if c == 'x': continue
      chunk = buffer.b[offset + off: offset + off + size]
      if c in 'sc':
        sb = SymBytes(chunk); res.append(sb.simplified()); continue
      if c == '?':
        x = chunk[0]; res.append((x != 0)); continue
      bs = list(chunk)
      if order == 'little': bs.reverse()
      signed = c in _SIGNED
      if any(isinstance(b, SymInt) for b in bs):
        res.append(core.from_bytes_be(bs, signed))
      else:
        res.append(int.from_bytes(bytes(bs), 'big', signed=signed))
    return tuple(res)

  @staticmethod
  def unpack(fmt, buffer):
    if not isinstance(buffer, SymBytes): return _struct.unpack(fmt, buffer)
    order, items, total = layout(fmt)
    if len(buffer) != total: raise _struct.error("unpack requires a buffer of %d bytes" % total)
    return StructShim.unpack_from(fmt, buffer, 0)


def _swap(x, n):
  x = lift(x)
  hi = (1 << (8 * n)) - 1
  if x.lo < 0 or x.hi > hi:
    if not core.And(x >= 0, x <= hi): raise OverflowError("int out of range for byte swap")
  if not LITTLE: return x
  return core.from_bytes_be([core.byte_of(x, i) for i in range(n)], False)


class SocketShim:
  def __getattr__(self, n): return getattr(_socket, n)
  @staticmethod
  def htonl(x): return _swap(x, 4) if isinstance(x, (SymInt, SymBool)) else _socket.htonl(x)
  @staticmethod
  def ntohl(x): return _swap(x, 4) if isinstance(x, (SymInt, SymBool)) else _socket.ntohl(x)
  @staticmethod
  def htons(x): return _swap(x, 2) if isinstance(x, (SymInt, SymBool)) else _socket.htons(x)
  @staticmethod
  def ntohs(x): return _swap(x, 2) if isinstance(x, (SymInt, SymBool)) else _socket.ntohs(x)
  @staticmethod
  def inet_aton(s):
    if isinstance(s, core.NonAsciiText): raise OSError("illegal IP address string passed to inet_aton")   # the C call rejects every non-ASCII text
    if isinstance(s, core.SymStr):
      # model: exactly four decimal groups (the only form POX itself produces); the C call also takes 1-3 groups and hex/octal groups:
      # those are not modelled (inconclusive), text without any digit group structure is rejected like the C call
      parts = s.split('.')
      if len(parts) > 4 or len(s) == 0: raise OSError("illegal IP address string passed to inet_aton")
      if len(parts) != 4: raise Inconclusive("inet_aton: fewer than four groups (classful short forms are not modelled)")
      out = []
      # the C call stops at the first ASCII white-space character after the last group: whatever follows is ignored ("1.2.3.4 xyz" is accepted)
      last = parts[3]
      for i_ in range(len(last)):
        if any(bool(last[i_] == w_) for w_ in ' \t\n\v\f\r'):
          parts = parts[:3] + [last[:i_]]; break
      for p_ in parts:
        if len(p_) == 0 or len(p_) > 3: raise OSError("illegal IP address string passed to inet_aton")
        if len(p_) > 1 and bool(p_[0] == '0'): raise Inconclusive("inet_aton: octal group")
        try: v = core.parse_int(p_, 10)
        except ValueError: raise OSError("illegal IP address string passed to inet_aton")
        if isinstance(v, SymInt):
          if bool(v > 255): raise OSError("illegal IP address string passed to inet_aton")
        elif v > 255: raise OSError("illegal IP address string passed to inet_aton")
        out.append(v)
      return SymBytes(out)
    return _socket.inet_aton(s)
  @staticmethod
  def inet_ntoa(b):
    if isinstance(b, SymBytes):
      s = b.simplified()
      if isinstance(s, bytes): return _socket.inet_ntoa(s)
      return core.SymStr(None, ('inet_ntoa', b))
    return _socket.inet_ntoa(b)


class SymArray:
  """array.array('H'|'B', bytes) over symbolic content; supports what POX uses (iteration, len, index)"""
  def __init__(self, code, items):
    self.typecode = code; self.items = items
    self.itemsize = 2 if code == 'H' else 1
  def __len__(self): return len(self.items)
  def __iter__(self): return iter(self.items)
  def __getitem__(self, i):
    r = self.items[i]
    return SymArray(self.typecode, r) if isinstance(i, slice) else r
  def tolist(self): return list(self.items)


class ArrayShim:
  ArrayType = _array.ArrayType
  typecodes = _array.typecodes
  @staticmethod
  def array(code, init=None):
    if not isinstance(init, SymBytes):
      return _array.array(code, init) if init is not None else _array.array(code)
    if code == 'B': return SymArray('B', list(init.b))
    if code == 'H':
      if len(init) % 2: raise ValueError("bytes length not a multiple of item size")
      it = []
      for i in range(0, len(init), 2):
        a, b = lift(init.b[i]), lift(init.b[i + 1])
        it.append((a | (b << 8)) if LITTLE else ((a << 8) | b))
      return SymArray('H', it)
    raise Inconclusive("array typecode %r over symbolic bytes" % code)


struct_shim = StructShim()
socket_shim = SocketShim()
array_shim = ArrayShim()


import math as _math
class MathShim:
  """math with modf() on symbolic *integers* (virtual clocks are integer valued: fractional part 0)"""
  def __getattr__(self, n): return getattr(_math, n)
  @staticmethod
  def modf(x):
    if isinstance(x, (SymInt, SymBool)): return (0, lift(x))
    return _math.modf(x)
  @staticmethod
  def floor(x):
    if isinstance(x, (SymInt, SymBool)): return lift(x)
    return _math.floor(x)
  @staticmethod
  def ceil(x):
    if isinstance(x, (SymInt, SymBool)): return lift(x)
    return _math.ceil(x)
math_shim = MathShim()
