"""CLI:  python -m symx.main Cxx [--tier quick|thorough] [--replay file] [--jobs n] [--budget s]"""
import sys, os, argparse


def main():
  ap = argparse.ArgumentParser()
  ap.add_argument('prop')
  ap.add_argument('--tier', default=os.environ.get('VERIF_TIER') or 'quick')
  ap.add_argument('--replay')
  ap.add_argument('--jobs', type=int)
  ap.add_argument('--budget', type=float)
  ap.add_argument('--only')
  a = ap.parse_args()
  sys.setrecursionlimit(20000)
  sys.unraisablehook = lambda *a: None      # POX generators that swallow GeneratorExit complain when collected
  from . import run
  if a.replay:
    sys.exit(run.do_replay(a.replay))
  seed = int(os.environ.get('VERIF_SEED', '0') or 0)
  if a.only: os.environ['VERIF_ONLY'] = a.only
  rc = run.run_property(a.prop, a.tier, seed=seed, budget_s=a.budget, jobs=a.jobs, only=a.only.split(',') if a.only else None)
  if a.prop == 'SELFTEST' and not a.only:
    from . import selftest
    rc = max(rc, selftest.main())
    if rc: print("ENGINE-ERROR translator validation failed")
  sys.exit(rc)


if __name__ == '__main__':
  main()
