#!/usr/bin/env python3
"""Regenerates MANIFEST.json from props/*.py (CLAIM dicts) and not_applicable.json."""
import json, os, sys, importlib, re
HERE = os.path.dirname(os.path.abspath(__file__))
sys.path.insert(0, HERE)
props = sorted(f[:-3] for f in os.listdir(os.path.join(HERE, 'props')) if re.match(r'C\d+\.py$', f))
checks = []
claimed = set()
for p in props:
  src = open(os.path.join(HERE, 'props', p + '.py')).read()
  m = re.search(r'^CLAIM = (\{.*?^\})', src, re.S | re.M)
  if not m: continue
  claim = eval(m.group(1))
  claimed.add(p)
  checks.append(dict(
    property_id=p,
    quick_cmd="./check %s --tier quick" % p,
    thorough_cmd="./check %s --tier thorough" % p,
    evidence_file="evidence/%s.json" % p,
    replay_cmd_template="./check %s --replay {path}" % p,
    engine="symx",
    technique=claim['technique'],
    level_claimed=dict(category="other", text=claim['text'], design_ref=claim.get('design_ref', 'DESIGN.md §3 ' + p)),
    level_note=claim['note']))
na = json.load(open(os.path.join(HERE, 'not_applicable.json')))
allp = [json.loads(l)['id'] for l in open(os.path.join(HERE, 'properties.jsonl'))]
not_app = []
for p in allp:
  if p in claimed: continue
  not_app.append(dict(property_id=p, reason=na.get(p, "check not built yet (solver-based harness pending); see DESIGN.md §3 " + p)))
hooks = json.load(open(os.path.join(HERE, 'hooks.json')))
man = dict(
  version=1,
  setup_cmd="sh ./setup.sh",
  hooks=hooks,
  engines=[dict(name="symx", path="symx/", serves_properties=sorted(claimed),
                kind_free_text="bounded symbolic executor for the real POX Python code: proxy ints/bytes over z3 QF_BV (or LIA for "
                               "summation kernels), AST-rewriting loader regenerating the encoding from /repo's working tree on every run, "
                               "solver-decided forking, counterexample replay on the unmodified code")],
  checks=checks,
  not_applicable=not_app,
  notes="Every check: ./check <id> [--tier quick|thorough]; exit 0 held within stated bounds, 1 VIOLATION (replayed on the real code), "
        "2 INCONCLUSIVE (budget/unknown: never reported as success), 3 ENGINE-ERROR. Known findings: known_findings.json.")
json.dump(man, open(os.path.join(HERE, 'MANIFEST.json'), 'w'), indent=1)
print("claimed", sorted(claimed), "n/a", [x['property_id'] for x in not_app])
