#!/bin/sh
# proc.sh Cxx : collect the seed from /tmp/wt/Cxx, run matrix-less try, keep the worktree until told
P=$1
cd /verif
D=$(tools/collect_seed.sh $P | tail -1)
S=$(basename $D)
echo "stored $S"
tools/try_seed2.sh $S quick 2>&1 | tail -12
