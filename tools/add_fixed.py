#!/usr/bin/env python3
"""tools/add_fixed.py <property> <what failed>   -- records /repo's HEAD commit as a fixed: line in known_findings.json"""
import json, subprocess, sys
k = json.load(open('/verif/known_findings.json'))
h = subprocess.check_output(['git', '-C', '/repo', 'log', '--format=%h', '-1']).decode().strip()
if len(sys.argv) > 3: h = sys.argv[3]
k['fixed'].append("fixed: property=%s %s %s" % (sys.argv[1], h, sys.argv[2]))
json.dump(k, open('/verif/known_findings.json', 'w'), indent=1)
print(k['fixed'][-1])
