#!/bin/sh
# runs every claimed check (quick tier by default) on the current tree, rewriting evidence/*.json
T="${1:-quick}"
cd "$(dirname "$0")/.." || exit 9
LOG=${RUNALL_LOG:-/tmp}
for p in $(python3 -c "import json; print(' '.join(c['property_id'] for c in json.load(open('MANIFEST.json'))['checks']))"); do
  S=$(date +%s)
  ./check $p --tier $T > $LOG/run_all.$p.out 2>&1; RC=$?
  E=$(date +%s)
  echo "$p exit=$RC $((E-S))s $(grep -c '^KNOWN-FINDING' $LOG/run_all.$p.out) known | $(grep ' tier=' $LOG/run_all.$p.out | cut -c1-150)"
done
