#!/bin/sh
# usage: tools/try_seed.sh <seed dir with patch.diff, demo.py> <property> [tier]
# applies the seeded change to /repo, shows that the demo fails and what the check says, then restores /repo.
D="$1"; P="$2"; T="${3:-quick}"
cd /repo || exit 9
git -C /repo diff --quiet || { echo "repo dirty"; exit 9; }
/venv/bin/python "$D/demo.py" >/dev/null 2>&1; echo "demo on clean tree: exit $?"
git -C /repo apply "$D/patch.diff" || exit 9
/venv/bin/python "$D/demo.py" >/dev/null 2>&1; echo "demo on seeded tree: exit $?"
/venv/bin/python -m pytest -q -p no:cacheprovider --timeout=900 --continue-on-collection-errors 2>&1 | tail -1
cp /verif/evidence/$P.json /tmp/try_seed.evidence 2>/dev/null
cd /verif && ./check "$P" --tier "$T" > /tmp/try_seed.out 2>&1; RC=$?
cp /tmp/try_seed.evidence /verif/evidence/$P.json 2>/dev/null
grep -E "^(VIOLATION|INCONCLUSIVE|ENGINE-ERROR|KNOWN)" /tmp/try_seed.out | head -5; tail -1 /tmp/try_seed.out
echo "check exit $RC"
git -C /repo checkout -- . ; find /repo -name __pycache__ -prune -exec rm -rf {} + 2>/dev/null
git -C /repo status --short | head -3
