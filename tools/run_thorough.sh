#!/bin/sh
# runs the thorough tier of the given properties (default: all), one after the other; log in /tmp/thorough.log
cd /verif
PROPS="${@:-C01 C02 C03 C04 C05 C06 C07 C08 C09 C10 C11 C12 C13 C14 C15 C16 C17 C18 C19 C20}"
for p in $PROPS; do
  S=$(date +%s)
  ./check $p --tier thorough > /tmp/thorough.$p.out 2>&1; RC=$?
  E=$(date +%s)
  echo "$p exit=$RC $((E-S))s $(grep -c '^KNOWN-FINDING' /tmp/thorough.$p.out) known | $(grep ' tier=' /tmp/thorough.$p.out | cut -c1-160)" >> /tmp/thorough.log
done
echo DONE >> /tmp/thorough.log
