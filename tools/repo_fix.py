#!/usr/bin/env python3
"""tools/repo_fix.py <property> <file under /repo> <commit message> <what failed> <<< JSON [[old, new], ...]
Applies exact-once text replacements to a /repo file, re-runs the baseline tests (must still be 46 passed / 17 failed / 2 errors),
commits as one 'fix:' commit and records it in known_findings.json.  Reverts the file when anything does not match."""
import json, subprocess, sys
prop, path, msg, what = sys.argv[1:5]
pairs = json.load(sys.stdin)
full = '/repo/' + path
s = open(full).read(); orig = s
for old, new in pairs:
  if s.count(old) != 1:
    print("NOT APPLIED: %r occurs %d times" % (old[:60], s.count(old))); sys.exit(1)
  s = s.replace(old, new)
open(full, 'w').write(s)
out = subprocess.run("/venv/bin/python -m pytest -q -p no:cacheprovider --timeout=900 --continue-on-collection-errors 2>&1 | tail -1", shell=True,
                     capture_output=True, text=True, cwd='/repo').stdout.strip()
print(out)
if '17 failed, 46 passed' not in out or '2 errors' not in out:
  open(full, 'w').write(orig); print("REVERTED: baseline changed"); sys.exit(1)
subprocess.run("find /repo -name __pycache__ -prune -exec rm -rf {} +", shell=True)
assert msg.startswith('fix: ')
subprocess.check_call(['git', '-C', '/repo', 'commit', '-qam', msg])
h = subprocess.check_output(['git', '-C', '/repo', 'log', '--format=%h', '-1']).decode().strip()
k = json.load(open('/verif/known_findings.json'))
k['fixed'].append("fixed: property=%s %s %s" % (prop, h, what))
json.dump(k, open('/verif/known_findings.json', 'w'), indent=1)
print(h, msg)
