#!/usr/bin/env python3
"""tools/repo_fix.py <property> <file under /repo> <commit message> <what failed> <<< JSON [[old, new], ...]
Applies exact-once text replacements to a /repo file, re-runs the test-suite (every test of the pinned 46-test baseline must still pass),
commits as one 'fix:' commit and records it in known_findings.json.  Reverts the file when anything does not match."""
import json, subprocess, sys
prop, path, msg, what = sys.argv[1:5]
pairs = json.load(sys.stdin)
full = '/repo/' + path
s = open(full).read(); orig = s
for old, new in pairs:
  if s.count(old) != 1:
    print("NOT APPLIED: %r occurs %d times" % (old[:60], s.count(old))); sys.exit(1)
  s = s.replace(old, new)
open(full, 'w').write(s)
out = subprocess.run("/venv/bin/python -m pytest -q -p no:cacheprovider --timeout=900 --continue-on-collection-errors -rA 2>&1", shell=True,
                     capture_output=True, text=True, cwd='/repo').stdout
print(out.strip().split('\n')[-1])
passed = set(l.split()[1].replace('tests/', 'tests.').replace('/', '.').replace('.py::', '.') for l in out.split('\n') if l.startswith('PASSED '))
missing = [t for t in json.load(open('/root/.vp/BASELINE.json'))['stable_pass'] if t not in passed]
if missing:      # (a repair may make further tests pass; every test of the pinned baseline must still pass)
  open(full, 'w').write(orig); print("REVERTED: baseline tests no longer pass:", missing); sys.exit(1)
subprocess.run("find /repo -name __pycache__ -prune -exec rm -rf {} +", shell=True)
assert msg.startswith('fix: ')
subprocess.check_call(['git', '-C', '/repo', 'commit', '-qam', msg])
h = subprocess.check_output(['git', '-C', '/repo', 'log', '--format=%h', '-1']).decode().strip()
k = json.load(open('/verif/known_findings.json'))
k['fixed'].append("fixed: property=%s %s %s" % (prop, h, what))
json.dump(k, open('/verif/known_findings.json', 'w'), indent=1)
print(h, msg)
