#!/bin/sh
# usage: tools/try_seed2.sh <seed name, e.g. C07-4> [tier] [extra check args]
# Like try_seed.sh but never touches /repo: the change is applied to a scratch worktree of /repo's HEAD (removed afterwards) and the
# check reads POX from there (POX_REPO); evidence goes to a scratch directory.  Several of these can run side by side.
# MATRIX=1: only the seeded demo and the check (which stops at the first failing path: VERIF_STOP_EARLY, set by seed_matrix.sh).
S="$1"; T="${2:-quick}"; shift; [ $# -gt 0 ] && shift
P=${S%%-*}; D=/verif/seeded/$S
W=/tmp/wt/try-$S
git -C /repo worktree remove --force $W 2>/dev/null
git -C /repo worktree add -q --detach $W HEAD || exit 9
cd $W
if [ -z "$MATRIX" ]; then /venv/bin/python $D/demo.py >/dev/null 2>&1; echo "demo on clean tree: exit $?"; fi
git apply $D/patch.diff || { git -C /repo worktree remove --force $W; exit 9; }
/venv/bin/python $D/demo.py >/dev/null 2>&1; echo "demo on seeded tree: exit $?"
if [ -z "$MATRIX" ]; then /venv/bin/python -m pytest -q -p no:cacheprovider --timeout=900 --continue-on-collection-errors 2>&1 | tail -1; fi
cd /verif && POX_REPO=$W VERIF_EVIDENCE_DIR=/tmp/wt/ev-$S ./check "$P" --tier "$T" "$@" > /tmp/wt/try-$S.out 2>&1; RC=$?
grep -E "^VIOLATION" /tmp/wt/try-$S.out | cut -c1-300 | head -4; grep -E "^(INCONCLUSIVE|ENGINE-ERROR|KNOWN)" /tmp/wt/try-$S.out | cut -c1-300 | head -3; grep ' tier=' /tmp/wt/try-$S.out
echo "check exit $RC"
git -C /repo worktree remove --force $W; rm -rf /tmp/wt/ev-$S
