#!/bin/sh
# runs every stored seeded change against the check of its property and writes seeded/RESULTS.md
# (each change is applied to a scratch worktree of /repo's HEAD, see try_seed2.sh; /repo itself is never touched)
cd /verif
export MATRIX=1 VERIF_STOP_EARLY=1
OUT=seeded/RESULTS.md
echo "Every stored change applied to a scratch worktree of /repo HEAD and checked with the quick tier of its property (stopping at the first failing path, which is replayed before it is reported). Exit 1 = VIOLATION reported." > $OUT
echo >> $OUT
echo "| seed | demo on seeded tree | check exit | first report |" >> $OUT
echo "|---|---|---|---|" >> $OUT
for d in $(ls -d seeded/C*-* | sort -V); do
  s=$(basename $d)
  tools/try_seed2.sh $s quick > /tmp/wt/seed_matrix.out 2>&1
  dc=$(grep 'demo on clean' /tmp/wt/seed_matrix.out | sed 's/.*exit //'); ds=$(grep 'demo on seeded' /tmp/wt/seed_matrix.out | sed 's/.*exit //')
  py=$(grep -E 'passed' /tmp/wt/seed_matrix.out | head -1 | sed 's/ in .*//')
  rc=$(grep 'check exit' /tmp/wt/seed_matrix.out | sed 's/.*exit //')
  v=$(grep -E '^VIOLATION' /tmp/wt/seed_matrix.out | head -1 | sed 's/replay=[^ ]* *//' | cut -c1-160)
  [ -n "$v" ] || v=$(grep -E '^(INCONCLUSIVE|ENGINE-ERROR)' /tmp/wt/seed_matrix.out | head -1 | cut -c1-160)
  echo "| $s | $ds | $rc | $v |" >> $OUT
  echo "$s rc=$rc $v"
done
