#!/bin/sh
# runs every stored seeded change against the check of its property and writes seeded/RESULTS.md
# (each change is applied to a scratch worktree of /repo's HEAD, see try_seed2.sh; /repo itself is never touched)
cd /verif
OUT=seeded/RESULTS.md
echo "| seed | demo clean/seeded | pytest | check exit | first report |" > $OUT
echo "|---|---|---|---|---|" >> $OUT
for d in $(ls -d seeded/C*-* | sort -V); do
  s=$(basename $d)
  tools/try_seed2.sh $s quick > /tmp/wt/seed_matrix.out 2>&1
  dc=$(grep 'demo on clean' /tmp/wt/seed_matrix.out | sed 's/.*exit //'); ds=$(grep 'demo on seeded' /tmp/wt/seed_matrix.out | sed 's/.*exit //')
  py=$(grep -E 'passed' /tmp/wt/seed_matrix.out | head -1 | sed 's/ in .*//')
  rc=$(grep 'check exit' /tmp/wt/seed_matrix.out | sed 's/.*exit //')
  v=$(grep -E '^(VIOLATION|INCONCLUSIVE|ENGINE-ERROR)' /tmp/wt/seed_matrix.out | head -1 | sed 's/replay=[^ ]* *//' | cut -c1-160)
  echo "| $s | $dc/$ds | $py | $rc | $v |" >> $OUT
  echo "$s rc=$rc $v"
done
