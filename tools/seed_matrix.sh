#!/bin/sh
# runs every stored seeded change against the check of its property and writes seeded/RESULTS.md
# (applies each patch to /repo, runs the quick check, restores /repo; evidence files are preserved by try_seed.sh)
cd /verif
OUT=seeded/RESULTS.md
echo "| seed | demo clean/seeded | pytest | check exit | first report |" > $OUT
echo "|---|---|---|---|---|" >> $OUT
for d in $(ls -d seeded/C*-* | sort); do
  s=$(basename $d); p=${s%%-*}
  tools/try_seed.sh /verif/$d $p quick > /tmp/seed_matrix.out 2>&1
  dc=$(grep 'demo on clean' /tmp/seed_matrix.out | sed 's/.*exit //'); ds=$(grep 'demo on seeded' /tmp/seed_matrix.out | sed 's/.*exit //')
  py=$(grep -E 'passed' /tmp/seed_matrix.out | head -1 | sed 's/ in .*//')
  rc=$(grep 'check exit' /tmp/seed_matrix.out | sed 's/.*exit //')
  v=$(grep -E '^(VIOLATION|INCONCLUSIVE|ENGINE-ERROR)' /tmp/seed_matrix.out | head -1 | sed 's/replay=[^ ]* *//' | cut -c1-160)
  echo "| $s | $dc/$ds | $py | $rc | $v |" >> $OUT
  echo "$s rc=$rc $v"
done
