#!/bin/sh
# usage: tools/collect_seed.sh <Cxx> : stores the change a sub-agent left in /tmp/wt/Cxx as seeded/Cxx-<next>/ (patch.diff, demo.py, meta.json)
P="$1"; W=/tmp/wt/$P
cd /verif
n=1; while [ -d seeded/$P-$n ]; do n=$((n+1)); done
D=seeded/$P-$n
git -C $W diff > /tmp/collect.diff
[ -s /tmp/collect.diff ] || { echo "no diff in $W"; exit 1; }
mkdir -p $D
cp /tmp/collect.diff $D/patch.diff
sed -e 's#sys.path.insert(0, os.path.dirname(os.path.abspath(__file__)))#sys.path.insert(0, os.getcwd())#' -e "s#sys.path.insert(0, \"$W\")#sys.path.insert(0, os.getcwd())#" $W/demo_$P.py > $D/demo.py
grep -q "^import os\|^import .*\bos\b" $D/demo.py || sed -i '1i import os' $D/demo.py
cp $W/meta_$P.json $D/meta.json
echo $D
