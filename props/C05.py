"""C05 - event delivery order, halting and unsubscription are exact."""
import gc
from symx.run import Obligation

CLAIM = {
 'technique': "bounded symbolic execution of the real revent code with z3 (symx): symbolic priorities and handler behaviours over short operation histories, reference dispatcher",
 'text': "Histories of subscribe / unsubscribe / raise operations (up to 5 operations, 3 handlers) run on a real EventMixin source; priorities are symbolic "
         "integers (the real list.sort decides order through solver-decided comparisons, so one path covers every priority assignment of an order "
         "type), handler return values and re-entrant actions (subscribe / unsubscribe / raise from inside a handler) are symbolic selectors. On every "
         "path the invocation log must equal a 25-line reference dispatcher: snapshot of the subscribers at raise time, descending priority, "
         "subscription order among equals, stop at halt, removed / one-shot handlers never again, nobody skipped or invoked twice. Also: "
         "raiseEventNoErrors never propagates a handler exception, undeclared event types are rejected on subscribe and raise, every removeListener "
         "form works, weak handlers vanish with their owner."
         " Also (O2_misc): weak subscriptions in six forms incl. owners dying during delivery and weak handlers returning control values, error suppression for every exception class, bulk removal, removal by reference of a callable subscribed to two event types. Nested deliveries against one-shot / self-removing handlers run in the quick tier; weak subscriptions unsubscribed by handler reference.",
 'note': "Trusted: CPython, z3, symx proxies, the reference dispatcher in props/C05.py. Selector-dominated: apart from the priorities this is bounded "
         "exhaustive enumeration of histories driven by the solver.",
}
EXPLANATION = ("Real EventMixin.raiseEvent/raiseEventNoErrors/addListener/add_listener/addListenerByName/removeListener/addListeners, autoBindEvents and "
               "CallProxy executed over symbolic histories; invocation log compared with a reference dispatcher on every path.")
FUNCTIONS = ["pox.lib.revent.revent.EventMixin.raiseEvent/raiseEventNoErrors/addListener/add_listener/addListenerByName/removeListener/removeListeners/"
             "addListeners/listenTo/_eventMixin_get_listener_count", "autoBindEvents", "CallProxy", "handleEventException"]
BOUNDS = {}
OUTSIDE = ["histories longer than 5 operations, more than 3 handlers", "handlers raising ReventError themselves"]
ASSUMPTIONS = ["handleEventException output is suppressed (sys.stderr) during the check"]

B_NONE, B_TRUE, B_FALSE, B_HALTREMOVE, B_RAISE, B_SUB, B_UNSUB, B_EMPTY, B_REMOVE, B_HALT, B_RERAISE = range(11)
BEH_SMALL = [B_NONE, B_TRUE, B_FALSE, B_HALTREMOVE, B_RAISE, B_SUB, B_UNSUB]
BEH_ALL = list(range(11))
BEH_NESTED = [B_NONE, B_RERAISE, B_REMOVE, B_FALSE, B_HALTREMOVE]     # quick tier: nested deliveries (a handler raises the event again) against one-shot / self-removing handlers


class Boom(Exception):
  pass


class World:
  def __init__(self, ctx):
    self.ctx = ctx
    R = ctx.pox('pox.lib.revent.revent')
    self.R = R
    class E1(R.Event): pass
    class E2(R.Event): pass
    class E3(R.Event): pass           # never declared on the source
    class Src(R.EventMixin):
      _eventMixin_events = set([E1, E2])
    self.E1, self.E2, self.E3 = E1, E2, E3
    self.src = Src()
    self.log = []                 # (handler id, delivery id)
    self.subs = []                # reference: dicts(hid, prio, seq, once, eid, beh, alive)
    self.seq = 0
    self.delivery = 0
    self.depth = 0

  # ---- handler factory ---------------------------------------------------------------------------
  def make_handler(self, hid, beh, extra):
    w = self; R = self.R
    def handler(event, *a, **k):
      w.log.append((hid, w.cur))
      if len(w.log) > 40: raise RuntimeError("runaway delivery: handler invoked over and over")
      for s_ in w.subs:            # reference state changes when they happen: a one-shot handler is spent the moment it is invoked, a handler
        # that asks to be removed is gone before the next handler (and any re-entrant raise made by it) runs
        if s_.get('fn') is handler and (s_['once'] or beh in (B_FALSE, B_HALTREMOVE, B_REMOVE)): s_['alive'] = False
      if beh == B_NONE: return None
      if beh == B_TRUE: return True
      if beh == B_FALSE: return False
      if beh == B_HALTREMOVE: return R.EventHaltAndRemove
      if beh == B_HALT: return R.EventHalt
      if beh == B_REMOVE: return R.EventRemove
      if beh == B_EMPTY: return ()
      if beh == B_RAISE: raise Boom()
      if beh == B_SUB:
        w.subscribe(9, extra, False, B_NONE, None)          # re-entrant subscribe of a fresh handler with symbolic priority
        return None
      if beh == B_UNSUB:
        w.unsubscribe_hid(0 if hid != 0 else 1, 'handler')   # re-entrant unsubscribe of another handler
        return None
      if beh == B_RERAISE:
        if w.depth < 2: w.raise_event('class', noerr=True)
        return None
    handler.__name__ = 'h%d' % hid
    return handler

  def on_invoke(self, hid):
    pass

  # ---- operations (each updates the reference model) ---------------------------------------------------
  def subscribe(self, hid, prio, once, beh, extra, how='addListener'):
    h = self.make_handler(hid, beh, extra)
    if how == 'addListener': r = self.src.addListener(self.E1, h, once=once, priority=prio)
    elif how == 'byName': r = self.src.addListenerByName('E1', h, once=once, priority=prio)
    else: r = self.src.add_listener(h, event_type=self.E1, once=once, priority=prio)
    self.seq += 1
    self.subs.append(dict(hid=hid, prio=prio, seq=self.seq, once=once, eid=r, beh=beh, alive=True, fn=h))
    return r

  def unsubscribe_hid(self, hid, form):
    ss = [s for s in self.subs if s['hid'] == hid and s.get('real', True)]
    if not ss: return
    s = ss[0]
    s['real'] = False
    et, eid = s['eid']
    if form == 'handler': self.src.removeListener(s['fn'])
    elif form == 'handler+type': self.src.removeListener(s['fn'], self.E1)
    elif form == 'eid': self.src.removeListener(eid)
    elif form == 'pair': self.src.removeListener((et, eid))
    elif form == 'eid+type': self.src.removeListener(eid, self.E1)
    else: self.src.removeListeners([s['eid']])
    s['alive'] = False

  def expected_delivery(self):
    """reference dispatcher: who is invoked, in which order, for a raise happening now (ignoring re-entrant effects on *this* delivery)"""
    snap = [s for s in self.subs if s['alive']]
    order = []
    rest = list(snap)
    # stable descending priority: repeatedly take the first of the maximal ones
    while rest:
      best = rest[0]
      for s in rest[1:]:
        if bool(s['prio'] > best['prio']): best = s
      order.append(best); rest.remove(best)
    return order

  def raise_event(self, form, noerr):
    ctx = self.ctx
    self.delivery += 1; did = self.delivery
    prev = getattr(self, 'cur', None); self.cur = did
    self.depth += 1
    order = self.expected_delivery()
    ev = self.E1() if form == 'instance' else self.E1
    exc = None; rv = 'unset'
    try:
      rv = (self.src.raiseEventNoErrors if noerr else self.src.raiseEvent)(ev)
    except Boom as e:
      exc = e
    # a one-shot handler, or one that asks to be removed, which a nested delivery (a handler of this delivery raising the event again before
    # its turn) has already used up is never invoked again - not from this delivery's snapshot either
    def used_up(s):
      return (s['once'] or s['beh'] in (B_FALSE, B_HALTREMOVE, B_REMOVE)) and any(h == s['hid'] and d > did for h, d in self.log)
    exp = []; propagates = False; dead = []
    for s in order:
      if used_up(s): continue
      exp.append(s['hid'])
      b = s['beh']
      if s['once'] or b in (B_FALSE, B_HALTREMOVE, B_REMOVE): dead.append(s)
      if b == B_UNSUB:
        for o in self.subs:
          if o['hid'] == (0 if s['hid'] != 0 else 1) and o['alive'] and o not in dead: dead.append(o); break
      if b == B_RAISE: propagates = True; break
      if b in (B_TRUE, B_HALTREMOVE, B_HALT, B_EMPTY): break
    self.depth -= 1
    for s in dead: s['alive'] = False           # reference state after the delivery
    got = [h for h, d in self.log if d == did]
    self.cur = prev
    tag = 'delivery %d: ' % did
    ctx.check(tag + 'handlers invoked == reference (order, once each, stop at halt)', got == exp)
    if not ctx.sym and got != exp: print('delivery', did, 'got', got, 'expected', exp)
    if noerr: ctx.check(tag + 'raiseEventNoErrors does not propagate handler exceptions', exc is None)
    else: ctx.check(tag + 'raiseEvent propagates a handler exception', (exc is not None) == propagates)
    if exc is None and not propagates and exp:
      ctx.check(tag + 'returns the event object', isinstance(rv, self.E1))
    if not order and form == 'class' and exc is None:
      ctx.check(tag + 'class form without listeners returns None', rv is None)
    ctx.check(tag + 'listener count', self.src._eventMixin_get_listener_count() == sum(1 for s in self.subs if s['alive']))


def h_history(ctx, plan, behs):
  """plan: string over S (subscribe next handler), U (unsubscribe a symbolic handler, symbolic form), R/r (raise class/instance form),
  N/n (raiseEventNoErrors class/instance form)"""
  import sys, io
  w = World(ctx)
  hid = 0
  err = sys.stderr; sys.stderr = io.StringIO()
  try:
    for i, op in enumerate(plan):
      if op == 'S':
        prio = ctx.int('prio%d' % hid, -3, 3)
        once = ctx.bool('once%d' % hid) if hid == 0 else False
        beh = behs[int(ctx.int('beh%d' % hid, 0, len(behs) - 1))] if hid < 2 else B_NONE
        extra = ctx.int('xprio%d' % hid, -3, 3)
        how = ['addListener', 'byName', 'add_listener'][hid % 3]
        w.subscribe(hid, prio, once, beh, extra, how)
        hid += 1
      elif op == 'U':
        target = int(ctx.int('utarget%d' % i, 0, max(hid - 1, 0)))
        form = ['handler', 'eid', 'pair', 'handler+type', 'eid+type', 'list'][int(ctx.int('uform%d' % i, 0, 5))]
        w.unsubscribe_hid(target, form)
      elif op in 'RrNn':
        w.raise_event('class' if op in 'RN' else 'instance', noerr=op in 'Nn')
  finally:
    sys.stderr = err
  ctx.witness('done')


def h_misc(ctx, what):
  w = World(ctx); R = w.R
  src = w.src
  def raises(f):
    try:
      f()
    except R.ReventError:
      return True
    return False
  if what == 'undeclared':
    ctx.check('subscribe to undeclared type rejected', raises(lambda: src.addListener(w.E3, lambda e: None)))
    ctx.check('subscribe by unknown name rejected', raises(lambda: src.addListenerByName('E3', lambda e: None)))
    ctx.check('raise instance of undeclared type rejected', raises(lambda: src.raiseEvent(w.E3())))
    ctx.check('raiseEventNoErrors still rejects undeclared types', raises(lambda: src.raiseEventNoErrors(w.E3())))
    ctx.check('declared type accepted', not raises(lambda: src.raiseEvent(w.E2())))
  elif what == 'weak':
    # the subscription form, the number of owners and which of them dies are solver-chosen
    calls = []
    class Owner:
      def __init__(self, tag): self.tag = tag
      def _handle_E1(self, e): calls.append(self.tag)
      def _handle_E2(self, e): calls.append(self.tag + '/E2')
    def subscribe(o, form):
      if form == 0: return src.addListener(w.E1, o._handle_E1, weak=True)
      if form == 1: return src.addListenerByName('E1', o._handle_E1, weak=True)
      if form == 2: return src.add_listener(o._handle_E1, event_name='E1', weak=True)
      if form == 3: return src.add_listener(o._handle_E1, weak=True)                       # event inferred from the method name
      if form == 4: return src.add_listener(o._handle_E1, event_type=w.E1, weak=True)
      return src.addListeners(o, weak=True)                                                # binds _handle_E1 and _handle_E2
    formA = int(ctx.int('formA', 0, 5)); formB = int(ctx.int('formB', 0, 5))
    a = Owner('a'); b = Owner('b')
    strong = []
    src.addListener(w.E1, lambda e: strong.append(1))
    ida = subscribe(a, formA); idb = subscribe(b, formB)
    n0 = src._eventMixin_get_listener_count()
    ctx.check('listener count after subscribing', n0 == 1 + (2 if formA == 5 else 1) + (2 if formB == 5 else 1))
    src.raiseEvent(w.E1)
    ctx.check('weak handlers invoked while their owners live, in subscription order', calls == ['a', 'b'] and strong == [1])
    kill_a = bool(ctx.bool('a_dies')); explicit_b = bool(ctx.bool('b_removed_by_id'))
    gone = 0
    if kill_a:
      gone += 2 if formA == 5 else 1
      del a; gc.collect()
    if explicit_b:
      gone += 2 if formB == 5 else 1
      ctx.check('explicit removal of a weak subscription by its returned id', (src.removeListeners(idb) if formB == 5 else src.removeListener(idb)) is True)
    ctx.check('a weak handler disappears with its owner (listener count)', src._eventMixin_get_listener_count() == n0 - gone)
    del calls[:]
    ok = not raises(lambda: src.raiseEvent(w.E1))
    ctx.check('raising after the owner is gone does not fail', ok)
    ctx.check('only the surviving handlers are invoked', calls == ([] if kill_a else ['a']) + ([] if explicit_b else ['b']) and strong == [1, 1])
    ctx.check('raiseEventNoErrors after the owner is gone does not fail', not raises(lambda: src.raiseEventNoErrors(w.E1)))
    if formB == 5 and not explicit_b:
      del calls[:]; src.raiseEvent(w.E2)
      ctx.check('other bound events of a surviving owner still delivered', calls == (['b/E2'] if True else []) or (formA == 5 and not kill_a and calls == ['a/E2', 'b/E2']))
    del b; gc.collect()
    ctx.check('all weak handlers gone at the end', src._eventMixin_get_listener_count() == 1 + (0 if kill_a else (2 if formA == 5 else 1)))
  elif what == 'weak_during':
    # the owner of a weak handler dies *while the event is being delivered* (an earlier handler drops the last reference): the dead
    # handler is skipped quietly, the remaining handlers still run, nothing reaches the raiser
    calls = []
    class Owner:
      def _handle_E1(self, e): calls.append('weak')
    holder = [Owner()]
    form = int(ctx.int('form', 0, 2)); how = int(ctx.int('raise_form', 0, 2))
    def dropper(e):
      calls.append('dropper'); holder[:] = []; gc.collect()
    src.addListener(w.E1, dropper, priority=5)
    if form == 0: src.addListener(w.E1, holder[0]._handle_E1, weak=True)
    elif form == 1: src.addListenerByName('E1', holder[0]._handle_E1, weak=True)
    else: src.addListeners(holder[0], weak=True)
    src.addListener(w.E1, lambda e: calls.append('tail'), priority=-5)
    def go():
      if how == 0: src.raiseEvent(w.E1)
      elif how == 1: src.raiseEvent(w.E1())
      else: src.raiseEventNoErrors(w.E1)
    failed = None
    try: go()
    except Exception as ex: failed = ex
    ctx.check('nothing propagates to the raiser when a weak handler\'s owner dies during delivery', failed is None)
    ctx.check('the remaining handlers are still invoked, the dead one is not', calls == ['dropper', 'tail'])
    ctx.check('the dead handler is unsubscribed', src._eventMixin_get_listener_count() == 2)
    del calls[:]; go()
    ctx.check('next delivery: survivors only', calls == ['dropper', 'tail'])
  elif what == 'weak_control':
    # a weakly subscribed handler takes part in delivery like any other: what it returns (halt / remove / halt-and-remove / nothing) is honoured
    calls = []
    rvs = [None, True, False, R.EventHalt, R.EventRemove, R.EventHaltAndRemove]
    k = int(ctx.int('returns', 0, len(rvs) - 1)); form = int(ctx.int('form', 0, 2))
    class Owner:
      def _handle_E1(self, e):
        calls.append('weak'); return rvs[k]
    o = Owner()
    src.addListener(w.E1, lambda e: calls.append('first'), priority=9)
    if form == 0: src.addListener(w.E1, o._handle_E1, weak=True, priority=5)
    elif form == 1: src.addListenerByName('E1', o._handle_E1, weak=True, priority=5)
    else: src.addListeners(o, weak=True, priority=5)
    src.addListener(w.E1, lambda e: calls.append('last'), priority=1)
    halts = k in (1, 3, 5); removes = k in (2, 4, 5)
    src.raiseEvent(w.E1)
    ctx.check('a halt returned by a weak handler stops the delivery', calls == ['first', 'weak'] + ([] if halts else ['last']))
    del calls[:]; src.raiseEvent(w.E1())
    ctx.check('a weak handler that asked to be removed is not invoked again',
              calls == ['first'] + ([] if removes else ['weak']) + ([] if (halts and not removes) else ['last']))
    ctx.check('listener count', src._eventMixin_get_listener_count() == (2 if removes else 3))
  elif what == 'remove_by_reference':
    # one callable subscribed to both event types of the source (plus an unrelated handler on each), unsubscribed by reference without naming
    # an event type - from outside or by the handler itself during a delivery (solver-chosen): it is gone for *every* type
    calls = []
    inside = bool(ctx.bool('from_inside')); first = int(ctx.int('first_type', 0, 1))
    def h(e):
      calls.append(type(e).__name__)
      if inside and armed[0]: armed[0] = False; src.removeListener(h)
    armed = [True]
    order = [w.E1, w.E2] if first == 0 else [w.E2, w.E1]
    for t in order: src.addListener(t, h)
    src.addListener(w.E1, lambda e: calls.append('other1')); src.addListener(w.E2, lambda e: calls.append('other2'))
    if inside: src.raiseEvent(order[0])
    else: ctx.check('removeListener(handler) reports a removal', src.removeListener(h) is True)
    del calls[:]
    src.raiseEvent(w.E1); src.raiseEvent(w.E2())
    ctx.check('a handler unsubscribed by reference is not invoked for any event type', calls == ['other1', 'other2'])
    ctx.check('listener count', src._eventMixin_get_listener_count() == 2)
  elif what == 'remove_weak_by_reference':
    # a *weak* subscription (three forms) unsubscribed by naming the handler - with or without the event type (solver-chosen): gone, the other
    # handler of the same owner and the strong handlers stay
    calls = []
    class Owner:
      def h(self, e): calls.append('weak')
      def k(self, e): calls.append('weak2')
    o = Owner()
    form = int(ctx.int('form', 0, 2)); typed = bool(ctx.bool('with_type'))
    if form == 0: src.addListener(w.E1, o.h, weak=True)
    elif form == 1: src.addListenerByName('E1', o.h, weak=True)
    else: src.add_listener(o.h, event_type=w.E1, weak=True)
    src.addListener(w.E1, o.k, weak=True); src.addListener(w.E1, lambda e: calls.append('strong'))
    r = src.removeListener(o.h, w.E1) if typed else src.removeListener(o.h)
    ctx.check('removeListener(handler) of a weak subscription reports a removal', r is True)
    src.raiseEvent(w.E1)
    ctx.check('the weak handler unsubscribed by reference is gone, the others stay', calls == ['weak2', 'strong'])
    ctx.check('listener count', src._eventMixin_get_listener_count() == 2)
    del o
  elif what == 'bulk_remove':
    # removeListeners(list of ids): every listed subscription is gone afterwards, whichever of them are still live (solver-chosen subset was
    # already removed one by one), the others stay; the result says whether anything was removed
    calls = []
    ids = [src.addListener(w.E1 if i != 2 else w.E2, (lambda e, i=i: calls.append(i)), priority=5 - i) for i in range(4)]
    gone = [bool(ctx.bool('already_removed%d' % i)) for i in range(3)]
    for i in range(3):
      if gone[i]: ctx.check('single removal', src.removeListener(ids[i]) is True)
    r = src.removeListeners(ids[:3])
    ctx.check('removeListeners reports whether it removed anything', r is (not all(gone)))
    ctx.check('only the unlisted subscription is left', src._eventMixin_get_listener_count() == 1)
    src.raiseEvent(w.E1); src.raiseEvent(w.E2())
    ctx.check('no listed handler is invoked any more, the unlisted one still is', calls == [3])
  elif what == 'noerrors_kinds':
    # error suppression holds for whatever a handler raises: ordinary errors, exceptions outside the Exception hierarchy (a handler calling
    # sys.exit(), a stray KeyboardInterrupt/GeneratorExit, a library's BaseException subclass), and for both raise forms; the failing handler
    # ends the delivery, the subscriptions are untouched and the next delivery runs normally
    class Abort(BaseException): pass
    kinds = [ValueError, Boom, Abort, SystemExit, KeyboardInterrupt, GeneratorExit, StopIteration, AssertionError]
    k = int(ctx.int('kind', 0, len(kinds) - 1)); how = int(ctx.int('raise_form', 0, 1)); pos = int(ctx.int('position', 0, 2))
    calls = []; arm = [True]
    def bad(e):
      calls.append('bad')
      if arm[0]: raise kinds[k]("handler failure")
    hs = [lambda e: calls.append('h0'), lambda e: calls.append('h1')]
    hs.insert(pos, bad)
    for i, h in enumerate(hs): src.addListener(w.E1, h, priority=10 - i)
    seen = []
    old = R.handleEventException
    R.handleEventException = lambda source, event, args, kw, exc_info: seen.append(exc_info[0])
    failed = None
    try:
      try: rv = src.raiseEventNoErrors(w.E1) if how == 0 else src.raiseEventNoErrors(w.E1())
      except BaseException as ex:
        if type(ex).__module__.startswith('symx'): raise
        failed = ex
    finally:
      R.handleEventException = old
    ctx.check('raiseEventNoErrors does not propagate what a handler raises (any exception class)', failed is None)
    ctx.check('the failure is handed to handleEventException exactly once', seen == [kinds[k]])
    ctx.check('handlers before the failing one ran, none after it', calls == ['h0', 'h1'][:pos] + ['bad'])
    ctx.check('subscriptions are untouched', src._eventMixin_get_listener_count() == 3)
    arm[0] = False; del calls[:]
    src.raiseEventNoErrors(w.E1)
    exp = ['h0', 'h1']; exp.insert(pos, 'bad')
    ctx.check('the next delivery runs normally', calls == exp)
  elif what == 'autobind':
    calls = []
    class Sink:
      def _handle_E1(self, e): calls.append('E1')
      def _handle_E2(self, e): calls.append('E2')
      def _handle_E3(self, e): calls.append('E3')
    s = Sink()
    ids = src.addListeners(s)
    ctx.check('addListeners binds exactly the declared events', len(ids) == 2)
    src.raiseEvent(w.E2); src.raiseEvent(w.E1())
    ctx.check('bound handlers invoked', calls == ['E2', 'E1'])
    ctx.check('removeListeners', src.removeListeners(ids) is True and src._eventMixin_get_listener_count() == 0)
  ctx.witness('done')


def obligations(tier):
  thorough = tier != 'quick'
  plans = ['SR', 'SSR', 'SSSR', 'SSRR', 'SRSR', 'SSUR', 'SSNr', 'SSnR', 'SUSR', 'SSRUR', 'SSSN', 'SSrN']
  if thorough: plans += ['SSSRR', 'SSUSR', 'SRSRR', 'SSSUR', 'SNSNR', 'SSRSR', 'SSSrn']
  behs = BEH_ALL if thorough else BEH_SMALL
  BOUNDS[tier] = dict(histories=plans, legend="S subscribe (symbolic priority -3..3, once, behaviour, via addListener/addListenerByName/add_listener), "
                      "U unsubscribe (symbolic target and form: handler, eid, (type,eid), handler+type, eid+type, list), R/r raise class/instance, N/n NoErrors",
                      behaviours=len(behs))
  return [
    Obligation('O1_histories', h_history, [dict(plan=p, behs=behs) for p in plans] + ([dict(plan=p, behs=BEH_NESTED) for p in ('SSR', 'SSSR', 'SSRR', 'SSN')] if not thorough else []), witnesses=('done',), max_decisions=20000,
               desc='invocation log == reference dispatcher over symbolic histories'),
    Obligation('O2_misc', h_misc, [dict(what=x) for x in ('undeclared', 'weak', 'weak_during', 'noerrors_kinds', 'bulk_remove', 'remove_by_reference', 'remove_weak_by_reference', 'weak_control', 'autobind')], witnesses=('done',),
               desc='undeclared types rejected; weak handlers; autoBindEvents/removeListeners'),
  ]
