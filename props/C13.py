"""C13 - every switch request is answered once, with its transaction id, in order."""
from symx.run import Obligation
from props import env

CLAIM = {
 'technique': "bounded symbolic execution of the real switch request handlers through the byte-level connection with z3 (symx, QF_BV): symbolic xids and request arguments",
 'text': "Sequences of 3 controller-to-switch requests (every message type and every statistics type appears; xids, ports, queues, tables, buffer ids, "
         "stats types and commands are symbolic) are packed, pushed as bytes through the real IOWorker/OFConnection.read into a SoftwareSwitch, and the "
         "bytes the switch writes are decoded. On every path z3 proves: exactly one reply or one error per request that needs one, none for the others, "
         "in request order, carrying the request's xid and the data the specification requires from the switch state at that point, and the specified "
         "error type/code for invalid ports, queues, stats types, vendors, commands and buffers, and for requests invalid at the framing level (a bare "
         "8-byte header of a type with a mandatory body: BAD_LEN; an unknown message type 22..255: BAD_TYPE) with the request's xid; no exception "
         "escapes and the connection stays open."
         " Also: over-long statistics requests, header-rejected requests delivered in two segments, queue-config requests for any port, and a switch whose flow table is at capacity (O2_full_table). Every sequence is also delivered pipelined in one segment; switch-only message types get BAD_TYPE; O3_oversize (requests too long to quote whole) and O4_big_stats (multipart statistics replies).",
 'note': "Trusted: CPython, z3, symx proxies/shims, the expected-reply table in props/C13.py. Bounded: 3 requests per sequence, switch with 4 ports and "
         "at most one installed flow.",
}
EXPLANATION = ("Real OFConnection.read/send, SoftwareSwitch.rx_message, every _rx_* and _stats_* handler and send_error executed on request sequences "
               "with symbolic xids/arguments; replies decoded from the written bytes and compared with the specification's table by z3 per path.")
FUNCTIONS = ["OFConnection.read/send", "SoftwareSwitchBase.rx_message/_rx_*/_stats_*/send_error/_process_actions_for_packet_from_buffer",
             "IOWorker._push_receive_data/send", "libopenflow_01 pack/unpack of all request and reply types"]
BOUNDS = {}
OUTSIDE = ["sequences longer than 3 (thorough: 4) requests", "statistics replies of more than two parts", "more than one installed flow"]
ASSUMPTIONS = ["the socket side of the IOWorker is not exercised (bytes are pushed into / read from its buffers)"]

NPORTS = 4
KINDS = ['echo', 'features', 'get_config', 'set_config', 'barrier', 'st_desc', 'st_flow', 'st_aggregate', 'st_table', 'st_port', 'st_queue',
         'st_vendor', 'st_unknown', 'vendor', 'queue_cfg', 'port_mod', 'flow_mod_bad', 'flow_mod_add', 'packet_out_buf', 'hello', 'short', 'unknown_type', 'long_stats', 'switch_only']
SHORT_TYPES = [9, 14, 13, 15, 16, 20, 4]      # set_config, flow_mod, packet_out, port_mod, stats_request, queue_get_config, vendor: all longer than a bare header


class Raw:
  """a request given as wire bytes (malformed at the framing level): version 1, type, length, xid, body"""
  def __init__(self, ctx, typ, length, body=()):
    self.ctx = ctx; self.typ = typ; self.length = length; self.body = list(body); self.xid = 0
  def pack(self):
    x = self.xid
    return env.tobytes(self.ctx, [1, self.typ, self.length >> 8, self.length & 255, (x >> 24) & 255, (x >> 16) & 255, (x >> 8) & 255, x & 255] + self.body)


def plans(thorough):
  out = []
  n = len(KINDS)
  for i in range(n):
    out.append([KINDS[i], KINDS[(i + 7) % n], KINDS[(i * 3 + 1) % n]])
  for i in range(n):
    out.append([KINDS[(i + 2) % n], KINDS[i], KINDS[(i + 11) % n]])
    out.append([KINDS[(i * 7 + 3) % n], KINDS[(i + 5) % n], KINDS[i]])
  if thorough:
    for i in range(n):
      for j in (1, 4, 9, 13):
        out.append([KINDS[i], KINDS[(i + j) % n], KINDS[(i + 2 * j + 1) % n], KINDS[(i * 3 + j) % n]])
  return out


def h_seq(ctx, plan):
  env.get_core()
  of = ctx.pox('pox.openflow.libopenflow_01'); swm = ctx.pox('pox.datapaths.switch'); iow = ctx.pox('pox.lib.ioworker')
  addrs = ctx.pox('pox.lib.addresses')
  sw = swm.SoftwareSwitch(dpid=0x42, ports=NPORTS, miss_send_len=128, max_buffers=2)
  w = iow.IOWorker(); w.socket = env.FakeSocket(eof=False)
  conn = swm.OFConnection(w)
  sw.set_connection(conn)
  state = dict(miss=128, flags=0, flows=0)
  expect = []     # list of (kind, checker(decoded message)) in order
  stream = []; split = []

  def reply(cls, xid, fn=None):
    expect.append((cls, xid, fn))

  def error(xid, etype, codes):
    expect.append((of.ofp_error, xid, lambda m: ctx.And(m.type == etype, ctx.Or(*[(m.code == c) for c in codes]))))

  for i, kind in enumerate(plan):
    xid = ctx.int('xid%d' % i, 0, 0xffffffff)
    if kind == 'echo':
      body = ctx.bytes('echo%d' % i, 3)
      msg = of.ofp_echo_request(body=body)
      reply(of.ofp_echo_reply, xid, lambda m, body=body: ctx.Eq(m.body, body))
    elif kind == 'hello':
      msg = of.ofp_hello()
      if not state.get('hello'):
        state['hello'] = True
        expect.append((of.ofp_hello, None, None))        # the switch answers the first hello with its own (xid 0 by design)
    elif kind == 'features':
      msg = of.ofp_features_request()
      reply(of.ofp_features_reply, xid, lambda m: ctx.And(m.datapath_id == 0x42, m.n_buffers == 2, m.n_tables == 1, len(m.ports) == NPORTS,
                                                          sorted(p.port_no for p in m.ports) == list(range(1, NPORTS + 1))))
    elif kind == 'get_config':
      msg = of.ofp_get_config_request()
      reply(of.ofp_get_config_reply, xid, lambda m, s=dict(state): ctx.And(m.miss_send_len == s['miss'], m.flags == s['flags']))
    elif kind == 'set_config':
      ml = ctx.int('miss%d' % i, 0, 0xffff); fl = ctx.int('cfl%d' % i, 0, 3)
      msg = of.ofp_set_config(miss_send_len=ml, flags=fl)
      state['miss'] = ml; state['flags'] = fl
    elif kind == 'barrier':
      msg = of.ofp_barrier_request()
      reply(of.ofp_barrier_reply, xid)
    elif kind == 'st_desc':
      msg = of.ofp_stats_request(body=of.ofp_desc_stats_request())
      reply(of.ofp_stats_reply, xid, lambda m: ctx.And(m.type == 0, m.body.mfr_desc == 'POX'))
    elif kind in ('st_flow', 'st_aggregate'):
      tid = ctx.int('tid%d' % i, 0, 255)
      op = ctx.int('outport%d' % i, 0, 0xffff)          # out_port filter: only OFPP_NONE (0xffff) means "no restriction"; the installed flows output to port 1
      b = (of.ofp_flow_stats_request if kind == 'st_flow' else of.ofp_aggregate_stats_request)(table_id=tid, out_port=op)
      msg = of.ofp_stats_request(body=b)
      nflows = state['flows']
      sel = ctx.And(ctx.Or(tid == 0, tid == 255), ctx.Or(op == 0xffff, op == 1))
      if kind == 'st_flow':
        reply(of.ofp_stats_reply, xid, lambda m, sel=sel, nflows=nflows: ctx.And(m.type == 1, ctx.Ite(sel, len(m.body) == nflows, len(m.body) == 0)))
      else:
        reply(of.ofp_stats_reply, xid, lambda m, sel=sel, nflows=nflows: ctx.And(m.type == 2, ctx.Ite(sel, m.body.flow_count == nflows, m.body.flow_count == 0)))
    elif kind == 'st_table':
      msg = of.ofp_stats_request(body=of.ofp_table_stats_request())
      reply(of.ofp_stats_reply, xid, lambda m, n=state['flows']: ctx.And(m.type == 3, len(m.body) == 1, m.body[0].active_count == n, m.body[0].table_id == 0))
    elif kind == 'st_port':
      pn = ctx.int('pno%d' % i, 0, 0xffff)
      msg = of.ofp_stats_request(body=of.ofp_port_stats_request(port_no=pn))
      def chk(m, pn=pn):
        if isinstance(m, of.ofp_error): return ctx.Not(ctx.Or(pn == 0xffff, ctx.And(pn >= 1, pn <= NPORTS)))     # an error only for a bad port
        return ctx.And(m.type == 4, ctx.Implies(pn == 0xffff, len(m.body) == NPORTS),
                       ctx.Implies(ctx.And(pn >= 1, pn <= NPORTS), ctx.And(len(m.body) == 1, m.body[0].port_no == pn) if len(m.body) >= 1 else False),
                       ctx.Implies(ctx.Not(ctx.Or(pn == 0xffff, ctx.And(pn >= 1, pn <= NPORTS))), len(m.body) == 0))
      expect.append(((of.ofp_stats_reply, of.ofp_error), xid, chk))
    elif kind == 'st_queue':
      qid = ctx.int('qid%d' % i, 0, 0xffffffff)
      msg = of.ofp_stats_request(body=of.ofp_queue_stats_request(port_no=0xfffc, queue_id=qid))
      def chk(m, qid=qid):
        if isinstance(m, of.ofp_error): return ctx.And(qid != 0xffffffff, m.type == 5, m.code == 1)
        return ctx.And(qid == 0xffffffff, m.type == 5, len(m.body) == 0)
      expect.append(((of.ofp_stats_reply, of.ofp_error), xid, chk))
    elif kind == 'st_vendor':
      msg = of.ofp_stats_request(type=0xffff, body=of.ofp_vendor_stats_generic(vendor=ctx.int('ven%d' % i, 0, 0xffffffff)))
      error(xid, 1, (2, 3))
    elif kind == 'st_unknown':
      t = ctx.int('stype%d' % i, 6, 0xfffe)
      msg = of.ofp_stats_request(type=t, body=b'')
      error(xid, 1, (2,))
    elif kind == 'vendor':
      msg = of.ofp_vendor_generic(vendor=ctx.int('ven%d' % i, 0, 0xffffffff), data=b'ab')
      error(xid, 1, (3,))
    elif kind == 'queue_cfg':
      pn = ctx.int('qport%d' % i, 0, 0xffff)           # any port number, also ones the switch does not have and the virtual ones
      msg = of.ofp_queue_get_config_request(port=pn)
      def chkq(m, pn=pn):
        # exactly one answer: the (empty) queue list of that port, or - only for a port the switch does not have - QUEUE_OP_FAILED / BAD_PORT
        if isinstance(m, of.ofp_error): return ctx.And(ctx.Not(ctx.And(pn >= 1, pn <= NPORTS)), m.type == 5, m.code == 0)
        return ctx.And(m.port == pn, len(m.queues) == 0)
      expect.append(((of.ofp_queue_get_config_reply, of.ofp_error), xid, chkq))
    elif kind == 'port_mod':
      pn = ctx.int('pmport%d' % i, 0, 0xffff)
      good_hw = ctx.bool('pmhw%d' % i)
      hw = sw.ports[2].hw_addr if good_hw else addrs.EthAddr(b'\x00\x11\x22\x33\x44\x55')
      msg = of.ofp_port_mod(port_no=pn, hw_addr=hw, config=0, mask=0)
      valid = ctx.And(pn >= 1, pn <= NPORTS)
      if bool(valid):
        if not bool(ctx.And(good_hw, pn == 2)): error(xid, 4, (1,))
      else:
        error(xid, 4, (0,))
    elif kind == 'flow_mod_bad':
      cmd = ctx.int('cmd%d' % i, 5, 0xffff)
      msg = of.ofp_flow_mod(command=cmd)
      error(xid, 3, (4,))
    elif kind == 'flow_mod_add':
      msg = of.ofp_flow_mod(command=0, priority=ctx.int('prio%d' % i, 0, 0xffff))
      msg.match.in_port = 9 + i
      msg.actions = [of.ofp_action_output(port=1)]
      state['flows'] += 1
    elif kind == 'packet_out_buf':
      bid = ctx.int('bid%d' % i, 1, 0xfffffffe)
      msg = of.ofp_packet_out(in_port=0xffff, actions=[of.ofp_action_output(port=1)])
      msg.buffer_id = bid
      error(xid, 1, (7, 8))       # no packet is buffered in this history: BUFFER_EMPTY / BUFFER_UNKNOWN
    elif kind == 'short':
      # a bare 8-byte header of a type whose body is mandatory: OFPET_BAD_REQUEST / OFPBRC_BAD_LEN carrying the request's xid
      msg = Raw(ctx, SHORT_TYPES[(i + len(plan[0])) % len(SHORT_TYPES)], 8)
      error(xid, 1, (6,))
    elif kind == 'long_stats':
      # a statistics request whose declared (and delivered) length exceeds what its type allows: 4 stray bytes after a well-formed
      # port / flow / aggregate / queue request body -> OFPET_BAD_REQUEST / OFPBRC_BAD_LEN carrying the request's xid
      st, body = [(4, [0xff, 0xff] + [0] * 6), (1, list(of.ofp_match().pack()) + [0xff, 0, 0xff, 0xff]), (2, list(of.ofp_match().pack()) + [0xff, 0, 0xff, 0xff]),
                  (5, [0xff, 0xfc, 0, 0, 0xff, 0xff, 0xff, 0xff])][(i + len(plan[1])) % 4]
      msg = Raw(ctx, 16, 12 + len(body) + 4, [0, st, 0, 0] + body + [0xde, 0xad, 0xbe, 0xef])
      error(xid, 1, (6,))
    elif kind == 'unknown_type':
      msg = Raw(ctx, ctx.int('utype%d' % i, 22, 255), 8 + 2, [0xaa, 0xbb] if i % 2 else [])
      if not i % 2: msg.length = 8
      error(xid, 1, (1,))
    elif kind == 'switch_only':
      # a well-formed message of a type only switches send (it decodes): not a request a switch accepts - BAD_REQUEST / BAD_TYPE, not silence
      sel = int(ctx.int('sotype%d' % i, 0, 3))
      msg = [of.ofp_barrier_reply(), of.ofp_packet_in(data=b'abc', in_port=1), of.ofp_get_config_reply(), of.ofp_flow_removed()][sel]
      error(xid, 1, (1,))
    else:
      raise KeyError(kind)
    msg.xid = xid
    stream.append(msg.pack())
    split.append(kind in ('unknown_type', 'long_stats') and i % 2 == 0)
  # ---- feed the bytes, one message per push (segmentation in general is C02's subject); requests that are rejected from their header alone
  # also arrive in two TCP segments (5 bytes, then the rest): still exactly one error
  # ... and a controller may pipeline: the whole sequence in one TCP segment (solver-chosen) gets the very same answers
  if bool(ctx.bool('one_segment')):
    ctx.witness('pipelined')
    whole = stream[0]
    for b in stream[1:]: whole = whole + b
    w._push_receive_data(whole)
    stream_fed = []
  else:
    stream_fed = list(zip(stream, split))
  for b, two in stream_fed:
    if two:
      w._push_receive_data(b[:5]); w._push_receive_data(b[5:])
    else:
      w._push_receive_data(b)
  ctx.check('connection stays open', not w.closed and not w._shutdown_send)
  ctx.check('all request bytes consumed', len(w.receive_buf) == 0)
  # ---- decode what the switch wrote
  out = w.send_buf
  msgs = []
  off = 0
  unpackers = swm.make_type_to_unpacker_table()
  guard = 0
  while off < len(out) and guard < 10:
    guard += 1
    t = out[off + 1]
    ln = (out[off + 2] << 8) | out[off + 3]
    o2, m = unpackers[int(t)](out[off:off + int(ln)], 0)
    msgs.append(m); off += int(ln)
  ctx.check('number of messages written == replies required', len(msgs) == len(expect))
  for m, (cls, xid, fn) in zip(msgs, expect):
    ctx.check('reply kind in request order', isinstance(m, cls))
    if not isinstance(m, cls): continue
    if xid is not None: ctx.check('reply carries the request xid', m.xid == xid)
    if fn is not None: ctx.check('reply content', fn(m))
  ctx.witness('done')


def h_full_table(ctx, cap):
  """a switch whose flow table holds `cap` entries: flow_mods that need no reply produce none - also an ADD that *replaces* an identical entry
  while the table is full (it needs no new slot) -, an ADD of one entry too many is answered with FLOW_MOD_FAILED / ALL_TABLES_FULL, and
  barrier / statistics replies in between show the effects of everything before them"""
  env.get_core()
  of = ctx.pox('pox.openflow.libopenflow_01'); swm = ctx.pox('pox.datapaths.switch'); iow = ctx.pox('pox.lib.ioworker')
  sw = swm.SoftwareSwitch(dpid=0x42, ports=NPORTS, miss_send_len=128, max_buffers=2, max_entries=cap)
  w = iow.IOWorker(); w.socket = env.FakeSocket(eof=False)
  conn = swm.OFConnection(w); sw.set_connection(conn)
  xs = [ctx.int('xid%d' % i, 0, 0xffffffff) for i in range(cap + 5)]
  def fm(k, xid, act):
    m = of.ofp_flow_mod(command=0, priority=100 + k, actions=[of.ofp_action_output(port=act)]); m.match.in_port = 1 + k; m.xid = xid
    return m
  stream = []; expect = []; i = 0
  for k in range(cap): stream.append(fm(k, xs[i], 1)); i += 1                              # fill the table: silent
  stream.append(fm(0, xs[i], 2)); i += 1                                                   # replace entry 0 (identical match and priority): silent
  b = of.ofp_barrier_request(); b.xid = xs[i]; stream.append(b); expect.append((of.ofp_barrier_reply, xs[i], None)); i += 1
  stream.append(fm(cap, xs[i], 1)); expect.append((of.ofp_error, xs[i], lambda m: ctx.And(m.type == 3, m.code == 0))); i += 1     # one too many
  st = of.ofp_stats_request(body=of.ofp_flow_stats_request()); st.xid = xs[i]; stream.append(st)
  def chk(m):
    acts = sorted((e.priority, e.actions[0].port) for e in m.body)
    return m.type == 1 and acts == sorted([(100, 2)] + [(100 + k, 1) for k in range(1, cap)])
  expect.append((of.ofp_stats_reply, xs[i], chk)); i += 1
  b = of.ofp_barrier_request(); b.xid = xs[i]; stream.append(b); expect.append((of.ofp_barrier_reply, xs[i], None))
  hello = of.ofp_hello(); w._push_receive_data(hello.pack())
  w.send_buf = b''                                                                        # (the switch's own hello)
  for m in stream: w._push_receive_data(m.pack())
  ctx.check('connection stays open', not w.closed and not w._shutdown_send)
  out = w.send_buf; msgs = []; off = 0; guard = 0
  unpackers = swm.make_type_to_unpacker_table()
  while off < len(out) and guard < 12:
    guard += 1
    ln = int((out[off + 2] << 8) | out[off + 3])
    o2, m = unpackers[int(out[off + 1])](out[off:off + ln], 0)
    msgs.append(m); off += ln
  ctx.check('number of messages written == replies required', len(msgs) == len(expect))
  for m, (cls, xid, fn) in zip(msgs, expect):
    ctx.check('reply kind in request order', isinstance(m, cls))
    if not isinstance(m, cls): continue
    ctx.check('reply carries the request xid', m.xid == xid)
    if fn is not None: ctx.check('reply content', fn(m))
  ctx.witness('done')


def h_oversize(ctx, total):
  """a request the switch answers with an error, long enough that the error cannot quote it whole (a vendor message of `total` bytes; the error
  message itself is limited to 65535): still exactly one error with the request's xid and the specified type/code, quoting a prefix of the
  request (the specification asks for at least 64 bytes), then the barrier reply"""
  env.get_core()
  of = ctx.pox('pox.openflow.libopenflow_01'); swm = ctx.pox('pox.datapaths.switch'); iow = ctx.pox('pox.lib.ioworker')
  sw = swm.SoftwareSwitch(dpid=0x42, ports=NPORTS, miss_send_len=128, max_buffers=2)
  w = iow.IOWorker(); w.socket = env.FakeSocket(eof=False)
  conn = swm.OFConnection(w); sw.set_connection(conn)
  x1 = ctx.int('xid_vendor', 0, 0xffffffff); x2 = ctx.int('xid_barrier', 0, 0xffffffff); vend = ctx.int('vendor', 0, 0xffffffff)
  w._push_receive_data(of.ofp_hello().pack()); w.send_buf = b''
  v = of.ofp_vendor_generic(xid=x1, vendor=vend, data=b'x' * (total - 12))
  raw = v.pack()
  ctx.check('request size', len(raw) == total)
  w._push_receive_data(raw)
  b = of.ofp_barrier_request(); b.xid = x2; w._push_receive_data(b.pack())
  ctx.check('connection stays open', not w.closed and not w._shutdown_send)
  out = w.send_buf; msgs = []; off = 0
  unpackers = swm.make_type_to_unpacker_table()
  while off < len(out) and len(msgs) < 4:
    ln = (out[off + 2] << 8) | out[off + 3]
    msgs.append(unpackers[int(out[off + 1])](out[off:off + int(ln)], 0)[1]); off += int(ln)
  ctx.check('one error, then the barrier reply', len(msgs) == 2 and isinstance(msgs[0], of.ofp_error) and isinstance(msgs[1], of.ofp_barrier_reply))
  if len(msgs) == 2 and isinstance(msgs[0], of.ofp_error):
    e = msgs[0]
    ctx.check('error carries the request xid, BAD_REQUEST / BAD_VENDOR', ctx.And(e.xid == x1, e.type == 1, e.code == 3))
    ctx.check('error quotes a prefix (>= 64 bytes) of the request', len(e.data) >= 64 and ctx.Eq(e.data, raw[:len(e.data)]))
    ctx.check('barrier reply xid', msgs[1].xid == x2)
  ctx.witness('done')


def h_big_stats(ctx, nact, nflows=2):
  """two installed flows with `nact` output actions each; a flow statistics request is answered - for 4100 actions each the two descriptions
  (32888 bytes each) do not fit into one message, so the answer has to come in parts (OFPSF_REPLY_MORE) -, then the barrier reply"""
  env.get_core()
  of = ctx.pox('pox.openflow.libopenflow_01'); swm = ctx.pox('pox.datapaths.switch'); iow = ctx.pox('pox.lib.ioworker')
  sw = swm.SoftwareSwitch(dpid=0x42, ports=NPORTS, miss_send_len=128, max_buffers=2)
  w = iow.IOWorker(); w.socket = env.FakeSocket(eof=False)
  conn = swm.OFConnection(w); sw.set_connection(conn)
  x1 = ctx.int('xid_stats', 0, 0xffffffff); x2 = ctx.int('xid_barrier', 0, 0xffffffff)
  w._push_receive_data(of.ofp_hello().pack()); w.send_buf = b''
  for k in range(1, nflows + 1):
    fm = of.ofp_flow_mod(xid=5, priority=7, actions=[of.ofp_action_output(port=1)] * nact); fm.match.in_port = k
    w._push_receive_data(fm.pack())
  st = of.ofp_stats_request(body=of.ofp_flow_stats_request()); st.xid = x1; w._push_receive_data(st.pack())
  b = of.ofp_barrier_request(); b.xid = x2; w._push_receive_data(b.pack())
  out = w.send_buf; msgs = []; off = 0
  unpackers = swm.make_type_to_unpacker_table()
  while off < len(out) and len(msgs) < 8:
    ln = (out[off + 2] << 8) | out[off + 3]
    msgs.append(unpackers[int(out[off + 1])](out[off:off + int(ln)], 0)[1]); off += int(ln)
  tag = ''
  ctx.check(tag + 'the statistics request is answered before the barrier reply', len(msgs) >= 2 and isinstance(msgs[0], (of.ofp_stats_reply, of.ofp_error)) and isinstance(msgs[-1], of.ofp_barrier_reply))
  if msgs: ctx.check('barrier reply xid', isinstance(msgs[-1], of.ofp_barrier_reply) and msgs[-1].xid == x2)
  for m in msgs[:-1]: ctx.check('answer carries the request xid', m.xid == x1)
  parts = [m for m in msgs[:-1] if isinstance(m, of.ofp_stats_reply)]
  if parts:
    ctx.check('every part but the last says that more follows', all((m.flags & 1) == 1 for m in parts[:-1]) and (parts[-1].flags & 1) == 0)
    ctx.check('the parts together describe every flow once', sorted(e.match.in_port for m in parts for e in m.body) == list(range(1, nflows + 1)) and all(len(e.actions) == nact for m in parts for e in m.body))
    if len(parts) > 1: ctx.witness('multipart')
  ctx.witness('done')


def obligations(tier):
  thorough = tier != 'quick'
  ps = plans(thorough)
  BOUNDS[tier] = dict(requests_per_sequence='3 (thorough: also 4)', sequences=len(ps), kinds=KINDS,
                      symbolic="xids (aliasing allowed), port numbers, queue ids, table ids, stats type, vendor id, flow_mod command, buffer id, config values")
  return [Obligation('O2_full_table', h_full_table, [dict(cap=c) for c in (1, 2)], witnesses=('done',), max_decisions=20000,
                     desc='flow table at capacity: replacing ADD is silent, an ADD too many gets ALL_TABLES_FULL, barrier and statistics replies reflect it'),
          Obligation('O3_oversize', h_oversize, [dict(total=t) for t in (200, 65523, 65524, 65535)], witnesses=('done',),
                     desc='a rejected request too long to be quoted whole in its error: one error with its xid, a prefix quoted'),
          Obligation('O4_big_stats', h_big_stats, [dict(nact=n) for n in (100, 4000, 4100)] + [dict(nact=5000, nflows=3), dict(nact=2000, nflows=5)], witnesses=('done', 'multipart'),
                     desc='flow statistics for an entry whose description does not fit into one message'),
          Obligation('O1_sequences', h_seq, [dict(plan=p) for p in ps], witnesses=('done', 'pipelined'), max_decisions=20000,
                     desc='request sequences through the byte-level connection: one reply/error per request, in order, with xid and specified content')]
