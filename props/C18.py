"""C18 - packet buffers are unique, released exactly once, and bounded."""
from symx.run import Obligation
from props import env

CLAIM = {
 'technique': "bounded symbolic execution of the real switch buffer code with z3 (symx, QF_BV): symbolic buffer ids, miss lengths and frame bytes over short operation histories",
 'text': "Histories of up to 4 operations (table miss, send-to-controller action, packet_out and flow_mod naming a symbolic buffer id, set_config with a "
         "symbolic miss_send_len) run on the real SoftwareSwitch with pools of 0..3 buffers; frames have symbolic payloads. On every path z3 proves: "
         "live buffer ids are distinct and name the stored frame; using a live id emits exactly that frame through the given actions and frees it; "
         "stale/bogus ids emit nothing and change nothing; occupancy never exceeds the pool; a packet-in without a free buffer carries the whole "
         "frame and no id, otherwise at most miss_send_len bytes and total_len equal to the true frame length (checked on the encoded message)."
         " Also: a flow table at capacity (O2), two switches in one process (O3), a buffered packet bounced to the controller again (O4) and a rewritten frame that misses the table (O5). O6_snapshot: actions that go on rewriting the frame after output:CONTROLLER / output:TABLE do not change the buffered packet. O7_data_and_id: a packet_out with a buffer id and data uses and frees the buffer.",
 'note': "Trusted: CPython, z3, symx proxies/shims, the 30-line reference pool in props/C18.py. Buffer ids and lengths are concretised by solver-driven "
         "forking (one path per value), frame contents stay symbolic. Bounded by history length, pool size and frame length (20 bytes).",
}
EXPLANATION = ("Real _buffer_packet/_process_actions_for_packet_from_buffer/send_packet_in/_rx_packet_out/_rx_flow_mod/_rx_set_config/rx_packet "
               "executed over symbolic histories; reference buffer pool; assertions decided by z3 per path.")
FUNCTIONS = ["SoftwareSwitchBase._buffer_packet/_process_actions_for_packet_from_buffer/_process_actions_for_packet/send_packet_in/_rx_packet_out/"
             "_rx_flow_mod/_rx_set_config/rx_packet/_output_packet", "ofp_packet_in.pack/unpack/total_len", "ofp_packet_out/ofp_flow_mod pack/unpack"]
BOUNDS = {}
OUTSIDE = ["pools larger than 3 (thorough: 4)", "histories longer than 4 (thorough: 5) operations", "frames other than 20 bytes"]
ASSUMPTIONS = ["the controller connection is a recorder; requests reach the switch as messages decoded from their wire form"]

PLANS_Q = ['mmP', 'mPP', 'mmF', 'mcP', 'SmP', 'mPm', 'mmmP']
PLANS_T = PLANS_Q + ['mcFm', 'mSmP', 'cPcP', 'mFmF', 'mmPP', 'mPmP', 'ccPm']
L = 20
NO_BUFFER = 0xffffffff


def be(v, n):
  return [(v >> (8 * (n - 1 - i))) & 0xff for i in range(n)]


def h_history(ctx, plan, pool, table_cap=None, to_controller=False):
  env.get_core()
  of = ctx.pox('pox.openflow.libopenflow_01'); swm = ctx.pox('pox.datapaths.switch'); pkt = ctx.pox('pox.lib.packet')
  # table_cap: a flow table that holds so few entries that the flow_mods of the history are refused with ALL_TABLES_FULL - a flow_mod that
  # names a buffer uses that buffer all the same (the packet goes through the given actions, the slot is freed)
  sw = swm.SoftwareSwitch(dpid=1, ports=4, miss_send_len=128, max_buffers=pool, **({} if table_cap is None else {'max_entries': table_cap}))
  sent = []
  class Conn:
    def send(c, msg): sent.append(msg)
    def set_message_handler(c, h): pass
  sw.set_connection(Conn())
  outs = []
  sw.addListenerByName('DpPacketOut', lambda e: outs.append((e.port.port_no, e.packet.pack())))
  live = {}          # reference pool: id -> (frame bytes, in_port)
  miss_len = 128
  nframe = 0
  ctl_flow = False

  def rx(msg):
    _, m2 = type(msg).unpack_new(msg.pack())
    sw.rx_message(sw._connection, m2)

  def new_frame(tag):
    nonlocal nframe
    nframe += 1
    payload = ctx.bytes('pay%d' % nframe, L - 14)
    hdr = [2, 0, 0, 0, 0, 9] + [2, 0, 0, 0, 0, tag] + [0x08, 0x01]
    return env.tobytes(ctx, hdr + list(payload))

  def check_packet_in(raw, in_port, reason, limit, nbefore):
    pis = [m for m in sent[nbefore:] if isinstance(m, of.ofp_packet_in)]
    ctx.check('exactly one packet-in', len(pis) == 1 and len(sent) - nbefore == 1)
    if len(pis) != 1: return
    wire = pis[0].pack()
    _, pi = of.ofp_packet_in.unpack_new(wire)
    free = len(live) < pool
    ctx.check('packet-in port and reason', ctx.And(pi.in_port == in_port, pi.reason == reason))
    if not free:
      ctx.witness('pool-full')
      ctx.check('no free buffer: no buffer id', pi.buffer_id is None)
      ctx.check('no free buffer: whole frame', ctx.Eq(pi.data, raw))
      ctx.check('total_len is the frame length', pi.total_len == L)
    else:
      bid = pi.buffer_id
      ctx.check('free buffer: an id is handed out', bid is not None)
      if bid is None: return
      ctx.check('id not already naming a live buffer', all(bool(bid != k) for k in live))
      n = min(int(limit), L) if not isinstance(limit, type(None)) else L
      ctx.check('data is at most the miss/max length', len(pi.data) == n)
      ctx.check('data is a prefix of the frame', ctx.Eq(pi.data, raw[:len(pi.data)]))
      ctx.check('total_len is the frame length', pi.total_len == L)
      live[int(bid)] = (raw, in_port)
      ctx.witness('buffered')
    ctx.check('occupancy bounded', sum(1 for x in sw._packet_buffer if x is not None) <= pool)

  for i, op in enumerate(plan):
    nb = len(sent); no = len(outs)
    if op == 'm':
      raw = new_frame(i); in_port = 1       # misses arrive on port 1, the controller flow matches port 4, actions output to 2 and 3
      sw.rx_packet(pkt.ethernet(raw), in_port)
      check_packet_in(raw, in_port, 0, miss_len, nb)
      ctx.check('a miss emits no frame', len(outs) == no)
    elif op == 'c':
      if not ctl_flow:
        fm = of.ofp_flow_mod(command=0, priority=5); fm.match.in_port = 4
        maxlen = ctx.int('maxlen', 0, L + 2)
        fm.actions = [of.ofp_action_output(port=0xfffd, max_len=maxlen)]
        rx(fm); ctl_flow = maxlen
        nb = len(sent)
      raw = new_frame(i)
      sw.rx_packet(pkt.ethernet(raw), 4)
      check_packet_in(raw, 4, 1, ctl_flow, nb)
    elif op in 'PF':
      bid = ctx.int('bid%d' % i, 0, 5)
      use_none = ctx.bool('nobuf%d' % i)
      outport = 2 if op == 'P' else 3
      drop = bool(ctx.bool('drop%d' % i))          # an empty action list: the buffered packet is dropped - and its buffer released all the same
      # ... or the stored packet is bounced to the controller again (output:CONTROLLER): the new packet-in names a buffer that really holds it
      toctl = (not drop) and to_controller and not bool(use_none) and bool(ctx.bool('toctl%d' % i))
      acts = [] if drop else [of.ofp_action_output(port=(0xfffd if toctl else outport), max_len=0xffff)]
      if op == 'P':
        msg = of.ofp_packet_out(in_port=0xffff, actions=acts)
        msg.buffer_id = None if use_none else bid
        if use_none: msg.data = new_frame(40 + i)
      else:
        msg = of.ofp_flow_mod(command=0, priority=9, actions=acts)
        msg.match.in_port = 7                       # matches nothing that arrives in this history
        msg.buffer_id = None if use_none else bid
      rx(msg)
      if use_none:
        if op == 'P':
          ctx.check('packet_out with data emits that data once (never with an empty action list)', len(outs) == no + (0 if drop else 1) and (drop or outs[-1][0] == outport))
        else:
          ctx.check('flow_mod without buffer emits nothing', len(outs) == no)
      else:
        b = int(bid)
        if b in live and toctl:
          raw, inp = live.pop(b)
          ctx.witness('bounced')
          pis = [m for m in sent[nb:] if isinstance(m, of.ofp_packet_in)]
          ctx.check('bounced to the controller: exactly one packet-in, nothing emitted', len(pis) == 1 and len(outs) == no)
          if len(pis) == 1:
            _, pi = of.ofp_packet_in.unpack_new(pis[0].pack())
            ctx.check('bounced: reason ACTION, total_len is the frame length', ctx.And(pi.reason == 1, pi.total_len == L))
            if pi.buffer_id is not None:
              nid = int(pi.buffer_id)
              ctx.check('bounced: the id in the packet-in is not one the controller still holds', nid not in live)
              slot = sw._packet_buffer[nid - 1] if 0 < nid <= len(sw._packet_buffer) else None
              ctx.check('bounced: the id in the packet-in names a buffer that holds this packet', slot is not None and ctx.Eq(slot[0].pack(), raw))
              live[nid] = (raw, inp)
            else:
              ctx.check('bounced without a buffer: the whole frame is carried', ctx.Eq(pi.data, raw))
        elif b in live:
          raw, inp = live.pop(b)
          ctx.witness('released')
          ok = len(outs) == no + (0 if drop else 1)
          ctx.check('live id: exactly one frame emitted (none for an empty action list)', ok)
          if drop: ctx.witness('dropped')
          if ok and not drop:
            ctx.check('live id: emitted on the action port', outs[-1][0] == outport)
            ctx.check('live id: emitted frame is the stored one', ctx.Eq(outs[-1][1], raw))
          ctx.check('live id: slot freed', sw._packet_buffer[b - 1] is None)
        else:
          ctx.witness('stale')
          ctx.check('stale/bogus id emits nothing', len(outs) == no)
      if not toctl: ctx.check('no packet-in from packet_out/flow_mod', all(not isinstance(m, of.ofp_packet_in) for m in sent[nb:]))
      if op == 'F' and table_cap == 0:
        ctx.witness('table-full')
        ctx.check('a flow_mod refused because the table is full is answered with FLOW_MOD_FAILED / ALL_TABLES_FULL',
                  any(isinstance(m, of.ofp_error) and m.type == 3 and m.code == 0 for m in sent[nb:]))
    elif op == 'S':
      miss_len = ctx.int('miss%d' % i, 0, L + 2)
      rx(of.ofp_set_config(miss_send_len=miss_len, flags=0))
      ctx.check('set_config is silent', len(sent) == nb and len(outs) == no)
    # global invariants after every step
    stored = [(k + 1) for k, x in enumerate(sw._packet_buffer) if x is not None]
    ctx.check('stored buffers == ids handed out and not yet used', sorted(stored) == sorted(live))
    ctx.check('occupancy bounded', len(stored) <= pool)
  ctx.witness('done')


def h_two_switches(ctx, pool2):
  """buffer pools are per switch: two switch objects in one process - an id handed out by one is unknown to the other, and the packets one
  holds do not count against the other's pool"""
  env.get_core()
  of = ctx.pox('pox.openflow.libopenflow_01'); swm = ctx.pox('pox.datapaths.switch'); pkt = ctx.pox('pox.lib.packet')
  sws = []; sent = {}; outs = {}
  for i, pool in enumerate((3, pool2)):
    sw = swm.SoftwareSwitch(dpid=1 + i, ports=4, miss_send_len=128, max_buffers=pool)
    sent[i] = []; outs[i] = []
    class Conn:
      def __init__(c, i): c.i = i
      def send(c, msg): sent[c.i].append(msg)
      def set_message_handler(c, h): pass
    sw.set_connection(Conn(i))
    sw.addListenerByName('DpPacketOut', lambda e, i=i: outs[i].append((e.port.port_no, e.packet.pack())))
    sws.append(sw)
  def frame(tag): return env.tobytes(ctx, [2, 0, 0, 0, 0, 9] + [2, 0, 0, 0, 0, tag] + [0x08, 0x01] + list(ctx.bytes('pay%d' % tag, 6)))
  def rx(i, msg): sws[i].rx_message(sws[i]._connection, type(msg).unpack_new(msg.pack())[1])
  # switch 0 buffers two frames
  raws = [frame(1), frame(2)]
  for r in raws: sws[0].rx_packet(pkt.ethernet(r), 1)
  pis = [m for m in sent[0] if isinstance(m, of.ofp_packet_in)]
  ctx.check('switch 0: two packet-ins with distinct buffer ids', len(pis) == 2 and pis[0].buffer_id is not None and pis[1].buffer_id is not None and pis[0].buffer_id != pis[1].buffer_id)
  if len(pis) != 2 or pis[0].buffer_id is None: return
  # switch 1 holds nothing: its first miss gets a buffer (if it has any) - the other switch's packets do not fill its pool
  r3 = frame(3)
  sws[1].rx_packet(pkt.ethernet(r3), 2)
  p1 = [m for m in sent[1] if isinstance(m, of.ofp_packet_in)]
  ctx.check('switch 1: one packet-in', len(p1) == 1)
  if len(p1) == 1:
    if pool2 > 0: ctx.check('switch 1: its own pool is free, so the packet is buffered', p1[0].buffer_id is not None)
    else: ctx.check('switch 1 advertises no buffers: whole frame, no id', p1[0].buffer_id is None)
  ctx.check('occupancy: each switch holds only its own packets', sum(1 for x in sws[0]._packet_buffer if x is not None) == 2 and
            sum(1 for x in sws[1]._packet_buffer if x is not None) == (1 if pool2 > 0 else 0))
  # an id of switch 0 used on switch 1 (solver-chosen which): unknown there unless switch 1 happens to have handed out the same number itself
  k = int(ctx.int('which', 0, 1)); bid = pis[k].buffer_id
  own = [m.buffer_id for m in p1 if m.buffer_id is not None]
  del sent[1][:]
  rx(1, of.ofp_packet_out(buffer_id=bid, in_port=0xffff, actions=[of.ofp_action_output(port=3)]))
  if bid in own:
    ctx.witness('same-number'); ctx.check('switch 1 emits its own packet for its own id', len(outs[1]) == 1 and ctx.Eq(outs[1][0][1], r3))
  else:
    ctx.witness('foreign-id')
    ctx.check('an id of another switch emits nothing', outs[1] == [])
    ctx.check('an id of another switch is rejected with BAD_REQUEST / BUFFER_UNKNOWN or BUFFER_EMPTY', any(isinstance(m, of.ofp_error) and m.type == 1 and m.code in (7, 8) for m in sent[1]))
  # the id is still good on the switch that issued it
  rx(0, of.ofp_packet_out(buffer_id=bid, in_port=0xffff, actions=[of.ofp_action_output(port=2)]))
  ctx.check('the issuing switch emits the stored packet once', len(outs[0]) == 1 and outs[0][0][0] == 2 and ctx.Eq(outs[0][0][1], raws[k]))
  ctx.witness('done')


def h_rewritten_miss(ctx, pool):
  """a frame handed to the switch in a packet_out is rewritten (an 802.1Q tag is pushed) and sent to the table, where it misses: the
  packet-in - and the buffer behind its id - describe the frame as it is now: true total length, data a prefix of the stored frame"""
  env.get_core()
  of = ctx.pox('pox.openflow.libopenflow_01'); swm = ctx.pox('pox.datapaths.switch'); pkt = ctx.pox('pox.lib.packet')
  sw = swm.SoftwareSwitch(dpid=1, ports=4, miss_send_len=ctx.int('miss_send_len', 0, 40), max_buffers=pool)
  sent = []
  class Conn:
    def send(c, msg): sent.append(msg)
    def set_message_handler(c, h): pass
  sw.set_connection(Conn())
  outs = []
  sw.addListenerByName('DpPacketOut', lambda e: outs.append((e.port.port_no, e.packet.pack())))
  pay = list(ctx.bytes('pay', 8)); vid = ctx.int('vid', 0, 4095)
  raw = env.tobytes(ctx, [2, 0, 0, 0, 0, 9, 2, 0, 0, 0, 0, 1, 0x08, 0x01] + pay)
  tagged = env.tobytes(ctx, [2, 0, 0, 0, 0, 9, 2, 0, 0, 0, 0, 1, 0x81, 0x00, vid >> 8, vid & 255, 0x08, 0x01] + pay)
  po = of.ofp_packet_out(in_port=1, data=raw, actions=[of.ofp_action_vlan_vid(vlan_vid=vid), of.ofp_action_output(port=of.OFPP_TABLE)])
  sw.rx_message(sw._connection, of.ofp_packet_out.unpack_new(po.pack())[1])
  pis = [m for m in sent if isinstance(m, of.ofp_packet_in)]
  ctx.check('the rewritten frame misses the empty table: one packet-in, nothing emitted', len(pis) == 1 and outs == [])
  if len(pis) != 1: return
  _, pi = of.ofp_packet_in.unpack_new(pis[0].pack())
  ctx.check('total_len is the length of the frame as it is now', pi.total_len == len(tagged))
  ctx.check('data is a prefix of the frame as it is now', len(pi.data) <= len(tagged) and ctx.Eq(pi.data, tagged[:len(pi.data)]))
  if pool == 0:
    ctx.check('no buffer: no id, the whole frame', pi.buffer_id is None and len(pi.data) == len(tagged))
  else:
    ctx.check('a buffer id is handed out', pi.buffer_id is not None)
    if pi.buffer_id is not None:
      del sent[:]
      sw.rx_message(sw._connection, of.ofp_packet_out.unpack_new(of.ofp_packet_out(buffer_id=pi.buffer_id, in_port=0xffff, actions=[of.ofp_action_output(port=3)]).pack())[1])
      ctx.check('using the id emits exactly the frame the packet-in described', len(outs) == 1 and outs[0][0] == 3 and ctx.Eq(outs[0][1], tagged))
  ctx.witness('done')


def h_snapshot(ctx, via):
  """the action list goes on rewriting the frame *after* it was sent to the controller (output:CONTROLLER, set_dl_dst / set_vlan_vid, output:2): the
  buffer behind the id in the packet-in holds the frame the packet-in showed, not what later actions made of it.  via: 'flow' (a flow entry with
  that action list, the frame arrives on a port) or 'packet_out' (the controller hands the frame over with that action list)"""
  env.get_core()
  of = ctx.pox('pox.openflow.libopenflow_01'); swm = ctx.pox('pox.datapaths.switch'); pkt = ctx.pox('pox.lib.packet'); addrs = ctx.pox('pox.lib.addresses')
  sw = swm.SoftwareSwitch(dpid=1, ports=4, miss_send_len=128, max_buffers=2)
  sent = []
  class Conn:
    def send(c, msg): sent.append(msg)
    def set_message_handler(c, h): pass
  sw.set_connection(Conn())
  outs = []
  sw.addListenerByName('DpPacketOut', lambda e: outs.append((e.port.port_no, e.packet.pack())))
  pay = list(ctx.bytes('pay', 6)); newdst = list(ctx.bytes('newdst', 6)); vid = ctx.int('vid', 0, 4095)
  usevlan = bool(ctx.bool('rewrite_is_a_tag'))
  hdr = [2, 0, 0, 0, 0, 9, 2, 0, 0, 0, 0, 1]
  raw = env.tobytes(ctx, hdr + [0x08, 0x01] + pay)
  if usevlan:
    later = env.tobytes(ctx, hdr + [0x81, 0x00, vid >> 8, vid & 255, 0x08, 0x01] + pay); rewrite = of.ofp_action_vlan_vid(vlan_vid=vid)
  else:
    later = env.tobytes(ctx, newdst + hdr[6:] + [0x08, 0x01] + pay); rewrite = of.ofp_action_dl_addr.set_dst(addrs.EthAddr(env.tobytes(ctx, newdst)))
  # 'packet_out_table': the first action sends the frame to the (empty) table instead, where it misses - a packet-in with a buffer id all the same
  acts = [of.ofp_action_output(port=of.OFPP_TABLE if via == 'packet_out_table' else of.OFPP_CONTROLLER, max_len=0xffff), rewrite, of.ofp_action_output(port=2)]
  def rx(msg): sw.rx_message(sw._connection, type(msg).unpack_new(msg.pack())[1])
  if via == 'flow':
    rx(of.ofp_flow_mod(command=0, priority=5, match=of.ofp_match(in_port=1), actions=acts))
    sw.rx_packet(pkt.ethernet(raw), 1)
  else:
    rx(of.ofp_packet_out(in_port=1, data=raw, actions=acts))
  pis = [m for m in sent if isinstance(m, of.ofp_packet_in)]
  ctx.check('one packet-in; the rewritten frame leaves on port 2', len(pis) == 1 and len(outs) == 1 and outs[0][0] == 2 and ctx.Eq(outs[0][1], later))
  if len(pis) != 1: return
  _, pi = of.ofp_packet_in.unpack_new(pis[0].pack())
  ctx.check('the packet-in shows the frame as it was at that action', ctx.Eq(pi.data, raw) and pi.total_len == len(raw))
  ctx.check('a buffer id is handed out', pi.buffer_id is not None)
  if pi.buffer_id is None: return
  del outs[:]
  rx(of.ofp_packet_out(buffer_id=pi.buffer_id, in_port=0xffff, actions=[of.ofp_action_output(port=3)]))
  ctx.check('using the id emits exactly the frame the packet-in showed', len(outs) == 1 and outs[0][0] == 3 and ctx.Eq(outs[0][1], raw))
  ctx.witness('tag' if usevlan else 'address')


def h_data_and_id(ctx):
  """a packet_out that names a buffer **and** carries data (the specification: data is only meaningful without a buffer id): the buffer is used -
  its packet goes through the actions - and freed; it is not left occupied behind the data"""
  env.get_core()
  of = ctx.pox('pox.openflow.libopenflow_01'); swm = ctx.pox('pox.datapaths.switch'); pkt = ctx.pox('pox.lib.packet')
  sw = swm.SoftwareSwitch(dpid=1, ports=4, miss_send_len=128, max_buffers=1)
  sent = []
  class Conn:
    def send(c, msg): sent.append(msg)
    def set_message_handler(c, h): pass
  sw.set_connection(Conn())
  outs = []
  sw.addListenerByName('DpPacketOut', lambda e: outs.append((e.port.port_no, e.packet.pack())))
  def frame(tag): return env.tobytes(ctx, [2, 0, 0, 0, 0, 9, 2, 0, 0, 0, 0, tag, 0x08, 0x01] + list(ctx.bytes('pay%d' % tag, 6)))
  stored = frame(1); other = frame(2)
  sw.rx_packet(pkt.ethernet(stored), 1)
  pis = [m for m in sent if isinstance(m, of.ofp_packet_in)]
  ctx.check('miss: packet-in with a buffer id', len(pis) == 1 and pis[0].buffer_id is not None)
  if len(pis) != 1 or pis[0].buffer_id is None: return
  bid = of.ofp_packet_in.unpack_new(pis[0].pack())[1].buffer_id
  # (POX's own encoder refuses to build such a message; it comes from another controller: the bytes are put together here)
  wire = of.ofp_packet_out(in_port=0xffff, buffer_id=bid, actions=[of.ofp_action_output(port=2)]).pack()
  wire = wire[:2] + env.tobytes(ctx, be(len(wire) + len(other), 2)) + wire[4:] + other
  sw.rx_message(sw._connection, of.ofp_packet_out.unpack_new(wire)[1])
  ctx.check('the buffered packet is emitted through the actions, once', len(outs) == 1 and outs[0][0] == 2 and ctx.Eq(outs[0][1], stored))
  ctx.check('the buffer is free again', sum(1 for x in sw._packet_buffer if x is not None) == 0)
  del sent[:]
  sw.rx_packet(pkt.ethernet(frame(3)), 1)
  pis = [m for m in sent if isinstance(m, of.ofp_packet_in)]
  ctx.check('the next miss gets a buffer (the pool of one is not leaked)', len(pis) == 1 and pis[0].buffer_id is not None)
  ctx.witness('done')


def obligations(tier):
  thorough = tier != 'quick'
  plans = PLANS_T + (['mmmPP', 'mcPmF', 'mPmPm', 'SmcPF', 'mmFPm', 'cmPPm'] if thorough else [])
  pools = [0, 1, 2, 3] + ([4] if thorough else [])
  cases = [dict(plan=p, pool=k) for p in plans for k in pools]
  bounce = [dict(plan=p, pool=k, to_controller=True) for p in (['mPP', 'mFP', 'mmPP'] + (['mPmPP', 'mFPF'] if thorough else [])) for k in (1, 2, 3)]
  full = [dict(plan=p, pool=2, table_cap=0) for p in (['mF', 'mmFF', 'mFmF'] + (['mFPm', 'mmFPF'] if thorough else []))]
  BOUNDS[tier] = dict(histories=plans, pool_sizes=pools, frame_bytes=L, legend="m=table miss, c=hit on a send-to-controller flow (symbolic max_len), "
                      "P=packet_out(symbolic buffer id 0..5 or none+data; output or empty action list), F=flow_mod(symbolic buffer id or none; output or empty action list), S=set_config(symbolic miss_send_len)")
  return [Obligation('O1_history', h_history, cases, witnesses=('done', 'buffered', 'pool-full', 'released', 'stale', 'dropped'), max_decisions=20000,
                     desc='buffer pool vs reference over symbolic histories'),
          Obligation('O5_rewritten_miss', h_rewritten_miss, [dict(pool=k) for k in (0, 1)], witnesses=('done',),
                     desc='a packet_out frame rewritten (tag pushed) and sent to the table where it misses: packet-in and buffer describe the rewritten frame'),
          Obligation('O6_snapshot', h_snapshot, [dict(via=v) for v in ('flow', 'packet_out', 'packet_out_table')], witnesses=('tag', 'address'),
                     desc='actions that go on rewriting the frame after output:CONTROLLER: the buffer holds the frame the packet-in showed'),
          Obligation('O7_data_and_id', h_data_and_id, [dict()], witnesses=('done',),
                     desc='a packet_out naming a buffer and carrying data: the buffer is used and freed'),
          Obligation('O4_bounce', h_history, bounce, witnesses=('done', 'bounced', 'released'), max_decisions=20000,
                     desc='a buffered packet sent to the controller again (packet_out / flow_mod with output:CONTROLLER): the new packet-in carries an id that really holds it'),
          Obligation('O3_two_switches', h_two_switches, [dict(pool2=k) for k in (0, 1, 2)], witnesses=('done', 'foreign-id', 'same-number'),
                     desc='two switches in one process: buffer ids and pool bounds are per switch'),
          Obligation('O2_table_full', h_history, full, witnesses=('done', 'table-full', 'released'), max_decisions=20000,
                     desc='the same histories on a switch whose flow table is full: refused flow_mods still use the buffer they name')]
