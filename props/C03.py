"""C03 - flow match and lookup semantics agree with OpenFlow 1.0."""
from symx.run import Obligation

CLAIM = {
 'technique': "bounded symbolic execution of the real matcher/lookup with z3 (symx, QF_BV): spec predicate equivalence per path",
 'text': "The flow match is decoded by the real ofp_match.unpack from 40 symbolic wire bytes (all fields, all wildcard words, prefix counters 0..63); "
         "the packet tuple is symbolic; z3 proves on every path that matches_with_wildcards() equals the OpenFlow 1.0 field-by-field predicate "
         "(prefix-masked IP compare, prerequisite rules). Lookup: tables of up to 3 entries with symbolic priorities inserted through the real "
         "add_entry; entry_for_packet must return a matching entry of maximal effective priority, exact entries outranking wildcarded ones."
         " Also: field extraction from frames (incl. a second 802.1Q tag), a buffered frame re-submitted to the table after a header rewrite (O4), and an entry whose flow_mod also drew an error reply (O5). O6_lookup_twice: consecutive lookups of different frames in an unchanged table are each right on their own. O7_exact_on_wire: an entry without any wildcard bit on the wire (ARP, non-IP, IP with another protocol) outranks every wildcarded entry.",
 'note': "Trusted: CPython, z3, symx proxies/shims (selftest), the 15-line spec predicate in props/C03.py. Assumes well-formed wire matches "
         "(wildcarded dl_type/nw_proto carry value 0 as the spec requires of ignored fields).",
}
EXPLANATION = ("Real ofp_match.unpack/matches_with_wildcards/get_nw_*/IPAddr.inNetwork and FlowTable.add_entry/entry_for_packet executed on "
               "symbolic wire bytes, packet tuples and priorities; oracle = OpenFlow 1.0 matching predicate; every path decided by z3.")
FUNCTIONS = ["ofp_match.unpack/_unwire_wildcards/_normalize_wildcards/matches_with_wildcards/get_nw_src/get_nw_dst/__getattr__/is_wildcarded/from_packet",
             "IPAddr.inNetwork/toUnsigned", "FlowTable.add_entry/entry_for_packet", "TableEntry.effective_priority"]
BOUNDS = {}
OUTSIDE = ["tables with more than 3 entries", "IP ToS values with ECN bits set (OpenFlow 1.0 only defines the 6 DSCP bits)", "VLAN tag inside LLC/SNAP, IP inside SNAP, IGMP/GRE payloads", "frame-level field extraction for VLAN-in-VLAN / IP options beyond IHL 6",
           "wire matches whose wildcarded dl_type / nw_proto field is non-zero"]
ASSUMPTIONS = ["packet tuples have the shape ofp_match.from_packet produces (kinds: IPv4 with/without transport ports, ARP, other ethertype)"]

FW = dict(in_port=1, dl_vlan=2, dl_src=4, dl_dst=8, dl_type=16, nw_proto=32, tp_src=64, tp_dst=128, dl_vlan_pcp=1 << 20, nw_tos=1 << 21)


def be(v, n):
  return [(v >> (8 * (n - 1 - i))) & 0xff for i in range(n)]


def num(bs):
  r = 0
  for b in bs: r = (r << 8) | b
  return r


def wire_flow_match(ctx, of, tag='f', tied=False):
  """flow match as a controller sends it: 40 wire bytes -> real unpack(flow_mod=True). Returns (match, spec-view dict)"""
  from symx.core import SymBytes
  raw = ctx.bytes(tag + 'raw', 40)
  f = dict(wildcards=num(raw[0:4]), in_port=num(raw[4:6]), dl_src=num(raw[6:12]), dl_dst=num(raw[12:18]), dl_vlan=num(raw[18:20]),
           dl_vlan_pcp=raw[20], dl_type=num(raw[22:24]), nw_tos=raw[24], nw_proto=raw[25], nw_src=num(raw[28:32]),
           nw_dst=num(raw[32:36]), tp_src=num(raw[36:38]), tp_dst=num(raw[38:40]))
  ctx.assume(f['wildcards'] < (1 << 22))
  # well-formed: ignored (wildcarded) prerequisite fields are zero, as OF 1.0 requires
  ctx.assume(ctx.Implies((f['wildcards'] & 16) != 0, f['dl_type'] == 0))
  ctx.assume(ctx.Implies((f['wildcards'] & 32) != 0, f['nw_proto'] == 0))
  if tied:
    w = f['wildcards']; b0 = w & 1
    ctx.assume(ctx.And(((w >> 1) & 1) == b0, ((w >> 2) & 1) == b0, ((w >> 3) & 1) == b0, ((w >> 20) & 1) == b0))
  m = of.ofp_match()
  m.unpack(raw, 0, flow_mod=True)
  return m, f


def spec_matches(ctx, f, p):
  """OpenFlow 1.0 sec. 3.4: every non-wildcarded field whose prerequisites are met must equal the packet's field"""
  And, Or, Not, Ite = ctx.And, ctx.Or, ctx.Not, ctx.Ite
  w = f['wildcards']
  def wild(name): return (w & FW[name]) != 0
  is_ip = And(Not(wild('dl_type')), f['dl_type'] == 0x0800)
  is_arp = And(Not(wild('dl_type')), f['dl_type'] == 0x0806)
  has_tp = And(is_ip, Not(wild('nw_proto')), Or(f['nw_proto'] == 1, f['nw_proto'] == 6, f['nw_proto'] == 17))
  conj = []
  for name in ('in_port', 'dl_src', 'dl_dst', 'dl_vlan', 'dl_vlan_pcp', 'dl_type'):
    conj.append(Or(wild(name), f[name] == p[name]))
  conj.append(Or(wild('nw_tos'), Not(is_ip), f['nw_tos'] == p['nw_tos']))
  conj.append(Or(wild('nw_proto'), Not(Or(is_ip, is_arp)), f['nw_proto'] == p['nw_proto']))
  for name, shift in (('nw_src', 8), ('nw_dst', 14)):
    cnt = (w >> shift) & 0x3f
    bits = Ite(cnt > 32, 32, cnt)                    # number of low bits ignored
    mask = (~((1 << bits) - 1)) & 0xffffffff
    conj.append(Or(Not(Or(is_ip, is_arp)), (f[name] & mask) == (p[name] & mask)))
  for name in ('tp_src', 'tp_dst'):
    conj.append(Or(wild(name), Not(has_tp), f[name] == p[name]))
  return And(*conj)


def packet_tuple(ctx, of, kind, tag='p'):
  """packet match exactly as ofp_match.from_packet builds it (public setters), plus the spec's 12-tuple view"""
  addrs = ctx.pox('pox.lib.addresses')
  m = of.ofp_match()
  p = {}
  p['in_port'] = ctx.int(tag + 'in_port', 0, 0xffff); m.in_port = p['in_port']
  for a in ('dl_src', 'dl_dst'):
    b = ctx.bytes(tag + a, 6); p[a] = num(b); setattr(m, a, addrs.EthAddr(b))
  p['dl_type'] = ctx.int(tag + 'dl_type', 0, 0xffff)
  p['dl_vlan'] = ctx.int(tag + 'dl_vlan', 0, 0xffff)
  p['dl_vlan_pcp'] = ctx.int(tag + 'pcp', 0, 7)
  ctx.assume(ctx.Or(p['dl_vlan'] < 4096, ctx.And(p['dl_vlan'] == 0xffff, p['dl_vlan_pcp'] == 0)))
  m.dl_type = p['dl_type']; m.dl_vlan = p['dl_vlan']; m.dl_vlan_pcp = p['dl_vlan_pcp']
  for a in ('nw_tos', 'nw_proto', 'nw_src', 'nw_dst', 'tp_src', 'tp_dst'): p[a] = 0     # absent fields are zero in the spec's tuple
  if kind in ('iptp', 'ipnotp'):
    ctx.assume(p['dl_type'] == 0x0800)
    for a in ('nw_src', 'nw_dst'):
      b = ctx.bytes(tag + a, 4); p[a] = num(b); setattr(m, a, addrs.IPAddr(b))
    p['nw_proto'] = ctx.int(tag + 'nw_proto', 0, 255); m.nw_proto = p['nw_proto']
    p['nw_tos'] = ctx.int(tag + 'nw_tos', 0, 255); m.nw_tos = p['nw_tos']
    if kind == 'iptp':
      ctx.assume(ctx.Or(p['nw_proto'] == 1, p['nw_proto'] == 6, p['nw_proto'] == 17))
      p['tp_src'] = ctx.int(tag + 'tp_src', 0, 0xffff); p['tp_dst'] = ctx.int(tag + 'tp_dst', 0, 0xffff)
      m.tp_src = p['tp_src']; m.tp_dst = p['tp_dst']
    elif kind == 'ipnotp':
      # other protocol, or a fragment (spec: ports are 0): from_packet sets tp_* = 0 for fragments, leaves them unset otherwise
      frag = ctx.bool(tag + 'frag')
      if frag: m.tp_src = 0; m.tp_dst = 0
      else: ctx.assume(ctx.Not(ctx.Or(p['nw_proto'] == 1, p['nw_proto'] == 6, p['nw_proto'] == 17)))
  elif kind == 'arp':
    ctx.assume(p['dl_type'] == 0x0806)
    for a in ('nw_src', 'nw_dst'):
      b = ctx.bytes(tag + a, 4); p[a] = num(b); setattr(m, a, addrs.IPAddr(b))
    p['nw_proto'] = ctx.int(tag + 'opcode', 0, 255); m.nw_proto = p['nw_proto']
  else:
    ctx.assume(ctx.And(p['dl_type'] != 0x0800, p['dl_type'] != 0x0806))
  return m, p


def h_matcher(ctx, kind, tied=False):
  of = ctx.pox('pox.openflow.libopenflow_01')
  fm, f = wire_flow_match(ctx, of, tied=tied)
  pm, p = packet_tuple(ctx, of, kind)
  got = fm.matches_with_wildcards(pm, consider_other_wildcards=False)
  ctx.witness('matched' if got else 'nomatch')
  ctx.check('matcher == spec', ctx.Iff(got, spec_matches(ctx, f, p)))


# ---- lookup -------------------------------------------------------------------------------------
def simple_flow(ctx, of, i, pdict):
  """entry match drawn from a small family over the packet's own fields: exact copy of the packet, or wildcard-all, or
  in_port-only / dl_dst-only / nw_dst-prefix; each with a symbolic 'hit' bit that perturbs one field"""
  sel = ctx.int('sel%d' % i, 0, 4)
  m = of.ofp_match()
  addrs = ctx.pox('pox.lib.addresses')
  if sel == 0:                      # exact (every field set)
    m.in_port = ctx.int('e%d_in_port' % i, 0, 0xffff)
    m.dl_src = addrs.EthAddr(ctx.bytes('e%d_dl_src' % i, 6)); m.dl_dst = addrs.EthAddr(ctx.bytes('e%d_dl_dst' % i, 6))
    m.dl_vlan = 0xffff; m.dl_vlan_pcp = 0; m.dl_type = 0x0800; m.nw_tos = 0; m.nw_proto = 6
    m.nw_src = addrs.IPAddr(ctx.bytes('e%d_nw_src' % i, 4)); m.nw_dst = addrs.IPAddr(ctx.bytes('e%d_nw_dst' % i, 4))
    m.tp_src = ctx.int('e%d_tp_src' % i, 0, 0xffff); m.tp_dst = ctx.int('e%d_tp_dst' % i, 0, 0xffff)
  elif sel == 1: pass               # wildcard all
  elif sel == 2: m.in_port = ctx.int('e%d_in_port' % i, 0, 0xffff)
  elif sel == 3: m.dl_dst = addrs.EthAddr(ctx.bytes('e%d_dl_dst' % i, 6))
  else:
    m.dl_type = 0x0800
    bits = ctx.int('e%d_bits' % i, 1, 32)
    m.nw_dst = (addrs.IPAddr(ctx.bytes('e%d_nw_dst' % i, 4)), bits)
  return m


def h_insert(ctx, n, prefixes=False):
  """FlowTable.add_entry alone: n entries with symbolic priorities, each exact-match or wildcarded (solver-chosen), inserted one after the other:
  after every insertion the table holds exactly the inserted entries, once each, in descending effective priority (exact entries first)."""
  of = ctx.pox('pox.openflow.libopenflow_01')
  ft = ctx.pox('pox.openflow.flow_table')
  addrs = ctx.pox('pox.lib.addresses')
  And = ctx.And
  t = ft.FlowTable()
  entries = []
  for i in range(n):
    m = of.ofp_match()
    kind = int(ctx.int('kind%d' % i, 0, 2 if prefixes else 1))       # 0 wildcarded (in_port only), 1 exact, 2 every single-bit field given but nw_src with a symbolic prefix length
    exact = kind == 1
    if kind:
      m.in_port = i + 1; m.dl_src = addrs.EthAddr(bytes([2, 0, 0, 0, 0, i])); m.dl_dst = addrs.EthAddr(bytes([2, 0, 0, 0, 1, i]))
      m.dl_vlan = 0xffff; m.dl_vlan_pcp = 0; m.dl_type = 0x0800; m.nw_tos = 0; m.nw_proto = 6
      m.nw_src = addrs.IPAddr('10.0.0.%d' % (i + 1)); m.nw_dst = addrs.IPAddr('10.0.1.%d' % (i + 1)); m.tp_src = 1000 + i; m.tp_dst = 80
      if kind == 2:
        bits = [0, 1, 31, 32][int(ctx.int('bitsel%d' % i, 0, 3))]
        m.nw_src = (addrs.IPAddr('10.0.0.%d' % (i + 1)), bits)
        exact = bits == 32                         # only a /32 leaves nothing wildcarded
        if 0 < bits < 32: ctx.witness('prefix')
      if exact: ctx.witness('exact')
    else:
      m.in_port = i + 1
    prio = ctx.int('prio%d' % i, 0, 0xffff)
    e = ft.TableEntry(priority=prio, match=m, now=0)
    ref = ctx.Ite(exact, 0x10001, prio) if False else (0x10001 if exact else prio)
    ctx.check('effective priority of entry %d' % i, e.effective_priority == ref)
    t.add_entry(e)
    entries.append((e, ref))
    srt = True
    for a, b in zip(t._table, t._table[1:]): srt = And(srt, a.effective_priority >= b.effective_priority)
    ctx.check('sorted by descending effective priority after insert %d' % i, srt)
    ctx.check('table holds exactly the inserted entries after insert %d' % i,
              len(t._table) == i + 1 and all(sum(1 for x in t._table if x is e0) == 1 for e0, _ in entries))
  ctx.witness('done')


def h_lookup(ctx, n):
  of = ctx.pox('pox.openflow.libopenflow_01')
  ft = ctx.pox('pox.openflow.flow_table')
  And, Or, Not = ctx.And, ctx.Or, ctx.Not
  t = ft.FlowTable()
  entries = []
  for i in range(n):
    e = ft.TableEntry(priority=ctx.int('prio%d' % i, 0, 0xffff), match=simple_flow(ctx, of, i, None), now=0)
    t.add_entry(e)
    entries.append(e)
    srt = True
    for a, b in zip(t._table, t._table[1:]): srt = And(srt, a.effective_priority >= b.effective_priority)
    ctx.check('sorted after insert %d' % i, srt)
    ctx.check('size', len(t._table) == i + 1)
  pm, p = packet_tuple(ctx, of, 'iptp')
  # the real lookup, minus frame parsing (from_packet is covered by the extraction obligation): same loop body as entry_for_packet
  got = None
  for entry in t._table:
    if entry.match.matches_with_wildcards(pm, consider_other_wildcards=False):
      got = entry; break
  hits = [e for e in entries if e.match.matches_with_wildcards(pm, consider_other_wildcards=False)]
  ctx.check('miss iff nothing matches', (got is None) == (len(hits) == 0))
  if got is not None:
    ctx.witness('hit')
    ctx.check('returned entry matches', any(h is got for h in hits))
    for h in hits:
      ctx.check('no better match', h.effective_priority <= got.effective_priority)
      if not h.match.is_wildcarded: ctx.check('exact outranks wildcarded', Not(got.match.is_wildcarded))
  else:
    ctx.witness('miss')


def h_lookup_real(ctx, n):
  """entry_for_packet itself on a concrete TCP frame with symbolic addresses/ports (ties parsing, from_packet and lookup together)"""
  of = ctx.pox('pox.openflow.libopenflow_01')
  ft = ctx.pox('pox.openflow.flow_table')
  pkt = ctx.pox('pox.lib.packet')
  from symx.core import SymBytes
  t = ft.FlowTable()
  entries = []
  for i in range(n):
    e = ft.TableEntry(priority=ctx.int('prio%d' % i, 0, 0xffff), match=simple_flow(ctx, of, i, None), now=0)
    t.add_entry(e); entries.append(e)
  dst = ctx.bytes('dst', 6); src = ctx.bytes('src', 6)
  ipsrc = ctx.bytes('ipsrc', 4); ipdst = ctx.bytes('ipdst', 4)
  sport = ctx.int('sport', 0, 0xffff); dport = ctx.int('dport', 0, 0xffff)
  in_port = ctx.int('in_port', 0, 0xffff)
  iphdr = [0x45, 0, 0, 40, 0, 0, 0, 0, 64, 6, 0, 0] + list(ipsrc) + list(ipdst)
  tcphdr = be(sport, 2) + be(dport, 2) + [0] * 8 + [0x50, 0x02, 0, 0, 0, 0, 0, 0]
  frame = list(dst) + list(src) + [0x08, 0x00] + iphdr + tcphdr
  raw = SymBytes(frame) if ctx.sym else bytes(frame)
  eth = pkt.ethernet(raw)
  got = t.entry_for_packet(eth, in_port)
  p = dict(in_port=in_port, dl_src=num(list(src)), dl_dst=num(list(dst)), dl_vlan=0xffff, dl_vlan_pcp=0, dl_type=0x0800, nw_tos=0,
           nw_proto=6, nw_src=num(list(ipsrc)), nw_dst=num(list(ipdst)), tp_src=sport, tp_dst=dport)
  pm = of.ofp_match.from_packet(eth, in_port, spec_frags=True)
  hits = [e for e in entries if e.match.matches_with_wildcards(pm, consider_other_wildcards=False)]
  ctx.check('miss iff nothing matches', (got is None) == (len(hits) == 0))
  if got is not None:
    ctx.witness('hit')
    ctx.check('returned entry matches', any(h is got for h in hits))
    for h in hits: ctx.check('no better match', h.effective_priority <= got.effective_priority)
  # extraction agrees with the byte-level view
  ctx.check('from_packet fields', ctx.And(pm.in_port == in_port, pm.dl_type == 0x0800, pm.dl_vlan == 0xffff, pm.nw_proto == 6,
                                         pm.tp_src == sport, pm.tp_dst == dport, pm.nw_src.toUnsigned() == p['nw_src'],
                                         pm.nw_dst.toUnsigned() == p['nw_dst']))


def h_lookup_twice(ctx, nframes):
  """a lookup is a function of the table and the frame: nframes TCP frames of one conversation pair (fixed addresses; ports, ingress port symbolic)
  are looked up one after the other in an unchanged table - each answer is judged on its own, whatever was looked up before"""
  of = ctx.pox('pox.openflow.libopenflow_01')
  ft = ctx.pox('pox.openflow.flow_table')
  pkt = ctx.pox('pox.lib.packet')
  from symx.core import SymBytes
  t = ft.FlowTable()
  entries = []
  for i in range(2):
    m = of.ofp_match(dl_type=0x0800, nw_proto=6)
    sel = int(ctx.int('sel%d' % i, 0, 3))
    if sel == 0: m.tp_dst = ctx.int('e%d_tp_dst' % i, 0, 0xffff)
    elif sel == 1: m.tp_src = ctx.int('e%d_tp_src' % i, 0, 0xffff)
    elif sel == 2: m.in_port = ctx.int('e%d_in_port' % i, 0, 0xffff)
    else: m = of.ofp_match()
    e = ft.TableEntry(priority=ctx.int('prio%d' % i, 0, 0xffff), match=m, now=0)
    t.add_entry(e); entries.append(e)
  answers = []
  for k in range(nframes):
    sport = ctx.int('sport%d' % k, 0, 0xffff); dport = ctx.int('dport%d' % k, 0, 0xffff); in_port = ctx.int('in_port%d' % k, 0, 0xffff)
    iphdr = [0x45, 0, 0, 40, 0, 0, 0, 0, 64, 6, 0, 0] + [10, 0, 0, 1] + [10, 0, 0, 2]
    tcphdr = be(sport, 2) + be(dport, 2) + [0] * 8 + [0x50, 0x02, 0, 0, 0, 0, 0, 0]
    frame = [2, 0, 0, 0, 0, 2] + [2, 0, 0, 0, 0, 1] + [0x08, 0x00] + iphdr + tcphdr
    eth = pkt.ethernet(SymBytes(frame) if ctx.sym else bytes(frame))
    got = t.entry_for_packet(eth, in_port)
    pm = of.ofp_match.from_packet(eth, in_port, spec_frags=True)
    hits = [e for e in entries if e.match.matches_with_wildcards(pm, consider_other_wildcards=False)]
    tag = 'frame %d: ' % k
    ctx.check(tag + 'miss iff nothing matches', (got is None) == (len(hits) == 0))
    if got is not None:
      ctx.check(tag + 'returned entry matches', any(h is got for h in hits))
      for h in hits: ctx.check(tag + 'no better match', h.effective_priority <= got.effective_priority)
    answers.append(got)
    ctx.check(tag + 'table untouched by a lookup', len(t._table) == 2)
  if any(a is not answers[0] for a in answers): ctx.witness('different-answers')
  if answers[0] is not None and any(a is None for a in answers[1:]): ctx.witness('miss-after-hit')
  if answers[0] is not None and all(a is answers[0] for a in answers): ctx.witness('same-entry')


def h_resubmit(ctx, field):
  """The switch looks a frame up *as it is at that moment*: a frame that missed the table and was buffered is sent back to the table
  (packet_out with the buffer id, a header rewrite and output to OFPP_TABLE - the virtual-IP / load-balancer pattern); the second lookup must
  see the rewritten header.  Two entries match two symbolic values of the rewritten field, the frame's original value matches neither."""
  from props import env
  env.get_core()
  of = ctx.pox('pox.openflow.libopenflow_01'); swm = ctx.pox('pox.datapaths.switch'); pkt = ctx.pox('pox.lib.packet'); addrs = ctx.pox('pox.lib.addresses')
  from symx.core import SymBytes
  sw = swm.SoftwareSwitch(dpid=3, ports=4, max_buffers=2)
  sent = []
  class Conn:
    def send(c, msg): sent.append(msg)
    def set_message_handler(c, h): pass
  sw.set_connection(Conn())
  outs = []
  sw.addListenerByName('DpPacketOut', lambda e: outs.append((e.port.port_no, e.packet.pack())))
  n = 4 if field == 'nw_dst' else 6
  orig = list(ctx.bytes('orig', n)); e1 = list(ctx.bytes('e1', n)); e2 = list(ctx.bytes('e2', n)); new = list(ctx.bytes('new', n))
  def same(a, b): return ctx.And(*[(x == y) for x, y in zip(a, b)])
  ctx.assume(ctx.Not(same(orig, e1))); ctx.assume(ctx.Not(same(orig, e2))); ctx.assume(ctx.Not(same(e1, e2)))
  def val(bs): return addrs.IPAddr(env.tobytes(ctx, bs)) if field == 'nw_dst' else addrs.EthAddr(env.tobytes(ctx, bs))
  for prio, ev, port in ((100, e1, 2), (50, e2, 3)):
    m = of.ofp_match(dl_type=0x0800); setattr(m, field, val(ev))
    fm = of.ofp_flow_mod(command=0, priority=prio, match=m, actions=[of.ofp_action_output(port=port)])
    sw.rx_message(sw._connection, of.ofp_flow_mod.unpack_new(fm.pack())[1])
  mac = orig if field == 'dl_dst' else [2, 0, 0, 0, 0, 9]
  ip = orig if field == 'nw_dst' else [10, 0, 0, 9]
  frame = mac + [2, 0, 0, 0, 0, 1, 0x08, 0x00] + [0x45, 0, 0, 28, 0, 0, 0, 0, 64, 17, 0, 0, 10, 0, 0, 1] + ip + [0, 7, 0, 9, 0, 8, 0, 0]
  raw = SymBytes(frame) if ctx.sym else bytes(frame)
  sw.rx_packet(pkt.ethernet(raw), 1)
  pins = [m for m in sent if isinstance(m, of.ofp_packet_in)]
  ctx.check('the unmodified frame misses the table and is buffered', len(pins) == 1 and outs == [] and pins[0].buffer_id is not None and pins[0].buffer_id != 0xffffffff)
  if len(pins) != 1: return
  rewrite = of.ofp_action_nw_addr.set_dst(val(new)) if field == 'nw_dst' else of.ofp_action_dl_addr.set_dst(val(new))
  po = of.ofp_packet_out(buffer_id=pins[0].buffer_id, in_port=1, actions=[rewrite, of.ofp_action_output(port=of.OFPP_TABLE)])
  del sent[:]
  sw.rx_message(sw._connection, of.ofp_packet_out.unpack_new(po.pack())[1])
  ports = [p for p, _ in outs]
  pins2 = [m for m in sent if isinstance(m, of.ofp_packet_in)]
  if bool(same(new, e1)):
    ctx.witness('hit-high'); ctx.check('re-submitted frame hits the entry that matches its rewritten header', ports == [2] and not pins2)
  elif bool(same(new, e2)):
    ctx.witness('hit-low'); ctx.check('re-submitted frame hits the entry that matches its rewritten header', ports == [3] and not pins2)
  else:
    ctx.witness('miss'); ctx.check('re-submitted frame that matches nothing is a table miss', ports == [] and len(pins2) == 1)
  ctx.check('no error reply', not any(isinstance(m, of.ofp_error) for m in sent))


def h_exact_on_wire(ctx, kind):
  """an entry whose match has no wildcard bit set **on the wire** (ofp_match.from_packet of the frame, packed into a flow_mod) is an exact-match
  entry by the specification's definition, whatever the frame's protocol: it outranks a wildcarded entry of any priority that matches too"""
  from props import env
  env.get_core()
  of = ctx.pox('pox.openflow.libopenflow_01'); ft = ctx.pox('pox.openflow.flow_table'); pkt = ctx.pox('pox.lib.packet')
  from symx.core import SymBytes
  mac = [2, 0, 0, 0, 0, 9, 2, 0, 0, 0, 0, 1]
  a = list(ctx.bytes('a', 4)); b = list(ctx.bytes('b', 4)); w = ctx.int('w', 0, 0xffff)
  if kind == 'arp':
    frame = mac + [0x08, 0x06, 0, 1, 8, 0, 6, 4, 0, 1] + mac[6:] + a + [0] * 6 + b; dl_type = 0x0806
  elif kind == 'other':
    frame = mac + [0x88, 0xb5] + a + b; dl_type = 0x88b5
  elif kind == 'ip_other':
    frame = mac + [0x08, 0x00] + [0x45, 0, 0, 24, 0, 0, 0, 0, 64, 47, 0, 0] + a + b + [0, 0, 8, 0]; dl_type = 0x0800
  else:
    frame = mac + [0x08, 0x00] + [0x45, 0, 0, 28, 0, 0, 0, 0, 64, 17, 0, 0] + a + b + be(w, 2) + [0, 53, 0, 8, 0, 0]; dl_type = 0x0800
  in_port = ctx.int('in_port', 1, 0xff00)
  eth = pkt.ethernet(SymBytes(frame) if ctx.sym else bytes(frame))
  m = of.ofp_match.from_packet(eth, in_port)
  wire = of.ofp_flow_mod(match=m, priority=ctx.int('prio_exact', 0, 0xffff), actions=[of.ofp_action_output(port=2)]).pack()
  ctx.check('the match is exact on the wire (wildcards word 0)', ctx.And(wire[8] == 0, wire[9] == 0, wire[10] == 0, wire[11] == 0))
  _, fm = of.ofp_flow_mod.unpack_new(wire)
  exact = ft.TableEntry.from_flow_mod(fm)
  wild = ft.TableEntry(priority=ctx.int('prio_wild', 0, 0xffff), match=of.ofp_match(dl_type=dl_type), now=0)
  t = ft.FlowTable()
  for e in ((exact, wild) if bool(ctx.bool('exact_first')) else (wild, exact)): t.add_entry(e)
  got = t.entry_for_packet(pkt.ethernet(SymBytes(frame) if ctx.sym else bytes(frame)), in_port)
  ctx.check('both entries match the frame; the exact-match one is returned', got is exact)
  if bool(exact.priority < wild.priority): ctx.witness('lower-number')
  ctx.witness('done')


def h_install_with_error(ctx, kind):
  """an entry installed by a flow_mod that also draws an error reply (it names a packet buffer the switch does not have): the error quotes
  the request, and the installed entry must keep matching exactly what it matched - the frames it describes still hit it"""
  from props import env
  env.get_core()
  of = ctx.pox('pox.openflow.libopenflow_01'); swm = ctx.pox('pox.datapaths.switch'); pkt = ctx.pox('pox.lib.packet'); addrs = ctx.pox('pox.lib.addresses')
  from symx.core import SymBytes
  sw = swm.SoftwareSwitch(dpid=3, ports=4, max_buffers=2)
  sent = []
  class Conn:
    def send(c, msg): sent.append(msg)
    def set_message_handler(c, h): pass
  sw.set_connection(Conn())
  outs = []
  sw.addListenerByName('DpPacketOut', lambda e: outs.append(e.port.port_no))
  ipd = list(ctx.bytes('nw_dst', 4)); sport = ctx.int('sport', 1, 0xffff); dport = ctx.int('dport', 1, 0xffff)
  for v in (67, 68, 53, 5353, 520, 4789): ctx.assume(ctx.And(sport != v, dport != v))
  if kind == 'ip':        # an IP flow that does not name a transport protocol: its tp_src/tp_dst are wildcarded on the wire *and* in the table
    m = of.ofp_match(dl_type=0x0800, nw_dst=addrs.IPAddr(env.tobytes(ctx, ipd)))
    frame = [2, 0, 0, 0, 0, 9, 2, 0, 0, 0, 0, 1, 0x08, 0x00] + [0x45, 0, 0, 28, 0, 0, 0, 0, 64, 17, 0, 0, 10, 0, 0, 1] + ipd + [sport >> 8, sport & 255, dport >> 8, dport & 255, 0, 8, 0, 0]
  else:                   # a non-IP flow (ARP): network-layer fields beyond the ARP ones do not apply
    m = of.ofp_match(dl_type=0x0806, nw_dst=addrs.IPAddr(env.tobytes(ctx, ipd)))
    frame = [0xff] * 6 + [2, 0, 0, 0, 0, 1, 0x08, 0x06] + [0, 1, 8, 0, 6, 4, 0, 1] + [2, 0, 0, 0, 0, 1, 10, 0, 0, 1] + [0] * 6 + ipd
  fm = of.ofp_flow_mod(command=0, priority=100, match=m, actions=[of.ofp_action_output(port=2)], buffer_id=ctx.int('bogus_buffer', 1, 9))
  sw.rx_message(sw._connection, of.ofp_flow_mod.unpack_new(fm.pack())[1])
  errs = [x for x in sent if isinstance(x, of.ofp_error)]
  ctx.check('the flow_mod naming an unknown buffer draws one BAD_REQUEST error (BUFFER_UNKNOWN / BUFFER_EMPTY)', len(errs) == 1 and errs[0].type == 1 and errs[0].code in (7, 8))
  ctx.check('the entry is installed all the same', len(sw.table.entries) == 1)
  raw = SymBytes(frame) if ctx.sym else bytes(frame)
  del sent[:]
  sw.rx_packet(pkt.ethernet(raw), 1)
  ctx.check('a frame the entry describes hits it (forwarded, no packet-in)', outs == [2] and not any(isinstance(x, of.ofp_packet_in) for x in sent))
  ctx.witness('done')


def h_extract(ctx, kind, tagged):
  """field extraction from frame bytes: ofp_match.from_packet(ethernet(raw), in_port, spec_frags=True) vs a byte-offset extractor
  written from OpenFlow 1.0 sec. 3.4 (header parsing flowchart)"""
  from props import env
  of = ctx.pox('pox.openflow.libopenflow_01'); pkt = ctx.pox('pox.lib.packet')
  And, Or, Not, Ite = ctx.And, ctx.Or, ctx.Not, ctx.Ite
  dst = list(ctx.bytes('dst', 6)); src = list(ctx.bytes('src', 6))
  in_port = ctx.int('in_port', 0, 0xffff)
  b = dst + src
  exp = dict(in_port=in_port, dl_src=num(src), dl_dst=num(dst), dl_vlan=0xffff, dl_vlan_pcp=0)
  if tagged:
    tci = ctx.int('tci', 0, 0xffff)
    b += [0x81, 0x00] + be(tci, 2)
    exp['dl_vlan'] = tci & 0x0fff; exp['dl_vlan_pcp'] = tci >> 13
  absent = ('nw_tos', 'nw_proto', 'nw_src', 'nw_dst', 'tp_src', 'tp_dst')
  if kind == 'ip':
    proto = ctx.int('proto', 0, 255)
    for v in (2, 47): ctx.assume(proto != v)                  # IGMP / GRE bodies are not part of the OpenFlow tuple; keep parsing simple
    tos8 = ctx.int('tos', 0, 255); tos = tos8 & 0xfc          # the match carries the six DSCP bits (upper bits of the ToS byte); the two ECN bits are not part of it
    fragword = ctx.int('fragword', 0, 0xffff)                  # 3 flag bits + 13-bit offset
    ipsrc = list(ctx.bytes('ipsrc', 4)); ipdst = list(ctx.bytes('ipdst', 4))
    sport = ctx.int('sport', 0, 0xffff); dport = ctx.int('dport', 0, 0xffff)
    for v in (67, 68, 53, 5353, 520, 4789): ctx.assume(And(sport != v, dport != v))
    l4 = be(sport, 2) + be(dport, 2) + [0, 0, 0, 0, 0, 0, 0, 0, 0x50, 0x10, 0, 0, 0, 0, 0, 0]      # valid as TCP (offset 5) and, read as UDP, length field = 0 -> handled below
    l4u = be(sport, 2) + be(dport, 2) + be(8, 2) + [0, 0]
    l4i = be(sport, 2) + [0, 0, 0, 0, 0, 0]                                                        # ICMP: type, code = first two bytes
    is_udp = proto == 17; is_tcp = proto == 6; is_icmp = proto == 1
    # choose the transport bytes that make that transport header well-formed
    if bool(is_udp): seg = l4u
    elif bool(is_icmp): seg = l4i
    else: seg = l4
    ip = [0x45, tos8] + be(20 + len(seg), 2) + [0, 0] + be(fragword, 2) + [64, proto, 0, 0] + ipsrc + ipdst
    b += [0x08, 0x00] + ip + seg
    frag = Or((fragword & 0x2000) != 0, (fragword & 0x1fff) != 0)
    exp.update(dl_type=0x0800, nw_tos=tos, nw_proto=proto, nw_src=num(ipsrc), nw_dst=num(ipdst))
    if bool(frag): exp.update(tp_src=0, tp_dst=0); ctx.witness('fragment')
    elif bool(Or(is_udp, is_tcp)): exp.update(tp_src=sport, tp_dst=dport); ctx.witness('ports')
    elif bool(is_icmp): exp.update(tp_src=sport >> 8, tp_dst=sport & 0xff); ctx.witness('icmp')
    else: exp.update(tp_src=None, tp_dst=None)
  elif kind == 'arp':
    op = ctx.int('op', 0, 0xffff)
    spa = list(ctx.bytes('spa', 4)); tpa = list(ctx.bytes('tpa', 4))
    b += [0x08, 0x06] + [0, 1, 8, 0, 6, 4] + be(op, 2) + list(ctx.bytes('sha', 6)) + spa + list(ctx.bytes('tha', 6)) + tpa
    exp.update(dl_type=0x0806)
    # OpenFlow 1.0 Table 3: nw_proto carries the lower 8 bits of the ARP opcode, nw_src / nw_dst the sender / target protocol address - whatever the opcode
    exp.update(nw_proto=op & 0xff, nw_src=num(spa), nw_dst=num(tpa), nw_tos=None, tp_src=None, tp_dst=None)
    if bool(op > 255): ctx.witness('arp-opcode-above-255')
  elif kind == 'qinq':
    # a second 802.1Q tag behind the first: OpenFlow 1.0 looks at the outermost tag only - the ethertype that follows it (0x8100) is the
    # dl_type, and nothing behind it (an IPv4/UDP datagram here) contributes to the tuple
    tci2 = ctx.int('tci2', 0, 0xffff)
    b += [0x81, 0x00] + be(tci2, 2) + [0x08, 0x00] + [0x45, 0, 0, 28, 0, 0, 0, 0, 64, 17, 0, 0] + list(ctx.bytes('ipsrc', 4)) + list(ctx.bytes('ipdst', 4)) + [0, 7, 0, 9, 0, 8, 0, 0]
    exp.update(dl_type=0x8100); exp.update({k: None for k in absent})
    ctx.witness('qinq')
  elif kind in ('llc', 'snap'):
    # 802.3 frame (length field < 0x600): with a SNAP header whose OUI is 0 the SNAP ethertype is the dl_type, otherwise 0x05ff (OpenFlow 1.0 sec. 3.4)
    et = ctx.int('ethertype', 0x0600, 0xffff)
    for v in (0x0800, 0x0806, 0x8035, 0x8100, 0x88cc, 0x888e, 0x8847, 0x8848, 0x86dd): ctx.assume(et != v)
    if kind == 'snap':
      oui = list(ctx.bytes('oui', 3))
      b += [0x00, 0x40, 0xaa, 0xaa, 0x03] + oui + be(et, 2) + list(ctx.bytes('pay', 4))
      exp.update(dl_type=Ite(And(oui[0] == 0, oui[1] == 0, oui[2] == 0), et, 0x05ff))
      if bool(And(oui[0] == 0, oui[1] == 0, oui[2] == 0)): ctx.witness('snap-oui0')
    else:
      dsap = ctx.int('dsap', 0, 255); ssap = ctx.int('ssap', 0, 255)
      ctx.assume(Not(And((dsap & 0xfe) == 0xaa, (ssap & 0xfe) == 0xaa)))
      b += [0x00, 0x40, dsap, ssap, 0x03] + list(ctx.bytes('pay', 6))
      exp.update(dl_type=0x05ff)
    exp.update({k: None for k in absent})
  else:
    et = ctx.int('ethertype', 0x0600, 0xffff)
    for v in (0x0800, 0x0806, 0x8035, 0x8100, 0x88cc, 0x888e, 0x8847, 0x8848, 0x86dd): ctx.assume(et != v)
    b += be(et, 2) + list(ctx.bytes('pay', 4))
    exp.update(dl_type=et); exp.update({k: None for k in absent})
  raw = env.tobytes(ctx, b)
  m = of.ofp_match.from_packet(pkt.ethernet(raw), in_port, spec_frags=True)
  def val(x):
    if x is None: return None
    if hasattr(x, 'toUnsigned'): return x.toUnsigned()
    if hasattr(x, 'toRaw'): return num(list(x.toRaw()))
    return x
  for k, e in exp.items():
    g = val(getattr(m, k))
    if e is None: ctx.check('field %s is not set' % k, g is None)
    else: ctx.check('field %s' % k, (g is not None) and (g == e))
  ctx.witness('extracted')


def obligations(tier):
  thorough = tier != 'quick'
  kinds = ['iptp', 'ipnotp', 'arp', 'other']
  BOUNDS[tier] = dict(matcher="flow match: all 40 wire bytes symbolic (all fields, all 2^22 wildcard words, prefix counters 0..63); packet tuple: all "
                              "field values, 4 packet kinds; quick tier ties the wildcard bits of the 5 independent L2 fields to one symbolic bit", lookup="tables of 1..%d entries, symbolic 16-bit priorities, entry matches from a "
                              "5-member family with symbolic field values" % (3 if thorough else 2))
  return [
    Obligation('O1_matcher', h_matcher, [dict(kind=k, tied=not thorough) for k in kinds], witnesses=('matched', 'nomatch'),
               desc='matches_with_wildcards(flow, packet) <=> OpenFlow 1.0 predicate, flow decoded from symbolic wire bytes'),
    Obligation('O2_extract', h_extract, [dict(kind=k, tagged=t) for k in ('ip', 'arp', 'other') for t in (False, True)] + [dict(kind='llc', tagged=False), dict(kind='snap', tagged=False), dict(kind='llc', tagged=True), dict(kind='snap', tagged=True), dict(kind='qinq', tagged=True)],
               witnesses=('extracted', 'fragment', 'ports', 'icmp', 'snap-oui0'), max_decisions=20000,
               desc='from_packet field extraction vs byte-offset extractor: VLAN tag, ARP, ICMP type/code, fragments (MF or offset) zero the ports'),
    Obligation('O3_insert', h_insert, [dict(n=3, prefixes=True)] + [dict(n=k) for k in ((3, 4, 5) if not thorough else (3, 4, 5, 6, 7))], witnesses=('done', 'exact', 'prefix'), max_decisions=20000,
               desc='add_entry binary insertion: table sorted by descending effective priority and complete after every one of n insertions (symbolic priorities, exact/wildcarded)'),
    Obligation('O3_lookup', h_lookup, [dict(n=k) for k in range(1, (3 if thorough else 2) + 1)], witnesses=('hit', 'miss'),
               desc='table sorted after every add_entry; lookup returns a matching entry of maximal effective priority; miss iff none'),
    Obligation('O5_install_error', h_install_with_error, [dict(kind=k) for k in ('ip', 'arp')], witnesses=('done',),
               desc='an entry whose flow_mod also drew an error reply (unknown buffer id) keeps matching the frames it describes'),
    Obligation('O4_resubmit', h_resubmit, [dict(field=f) for f in ('nw_dst', 'dl_dst')], witnesses=('hit-high', 'hit-low', 'miss'),
               desc='a buffered frame sent back to the table after a header rewrite (packet_out: set field, output OFPP_TABLE) is looked up by its current headers'),
    Obligation('O6_lookup_twice', h_lookup_twice, [dict(nframes=2)] + ([dict(nframes=3)] if thorough else []), witnesses=('different-answers', 'miss-after-hit', 'same-entry'), max_decisions=20000,
               desc='consecutive lookups of different frames in an unchanged table: each answer is right on its own (a lookup keeps no state)'),
    Obligation('O7_exact_on_wire', h_exact_on_wire, [dict(kind=k) for k in ('udp', 'arp', 'other', 'ip_other')], witnesses=('done', 'lower-number'),
               desc='entries without any wildcard bit on the wire (ARP, non-IP, IP with another protocol) outrank every wildcarded entry'),
    Obligation('O3_lookup_frame', h_lookup_real, [dict(n=1)] + ([dict(n=2)] if thorough else []), witnesses=('hit',),
               desc='entry_for_packet on a TCP frame with symbolic addresses/ports: parse + from_packet + lookup'),
  ]
