"""C10 - malformed OpenFlow input is contained to the offending connection."""
from symx.run import Obligation
from props import env

CLAIM = {
 'technique': "bounded symbolic execution of the real connection read paths and I/O loop bodies with z3 (symx, QF_BV) on fully symbolic byte buffers",
 'text': "A buffer of N fully unconstrained symbolic bytes is delivered to one connection of the real controller loop (OpenFlow_01_Task.run driven as a "
         "generator with scripted select results) and of the real switch I/O loop (RecocoIOLoop.run + OFConnection.read); a sibling connection carries "
         "valid echo requests before and after. On every feasible path: processing terminates within a step budget, the loop generator survives, the "
         "sibling's messages are delivered unchanged, and the offending connection is either closed or has skipped/answered the bytes - a complete "
         "declared frame is never left stuck in an open connection. The step budget counts dispatches and looks at the receive buffer, so a read loop "
         "that spins without consuming is reported as non-termination. A further switch-side case buffers one maximal message (65535 bytes, six types, "
         "symbolic xid, declared length 0xffe0..0xffff)."
         " Also: a later TCP segment on a closed / served switch connection, shaped PACKET_OUT / FLOW_MOD inputs with action-list stubs, and a handshake-shaped input with a symbolic barrier xid on the controller side (no closed socket may stay in the select set). On the switch side 'closed' means the socket was shut down or closed after the loop could flush, not merely marked.",
 'note': "Trusted: CPython, z3, symx proxies/shims (selftest), scripted sockets and select results (props/env.py). Message handlers on the "
         "controller side are recording stubs (handler semantics belong to C09/C17). Bounded by the stated buffer lengths.",
}
EXPLANATION = ("Real Connection.read / OpenFlow_01_Task.run loop body and OFConnection.read / IOWorker / RecocoIOLoop.run loop body executed on "
               "N symbolic bytes; termination, containment, sibling delivery and no-stuck-frame assertions decided by z3 on every path.")
FUNCTIONS = ["pox.openflow.of_01.Connection.read", "pox.openflow.of_01.OpenFlow_01_Task.run (loop body, generator driven)",
             "pox.datapaths.switch.OFConnection.read/_error_handler/_extract_message_xid/send/close",
             "pox.lib.ioworker.IOWorker._push_receive_data/peek/consume_receive_buf/_do_recv, RecocoIOLoop.run (loop body)",
             "every libopenflow_01 unpack reached from the type dispatch tables"]
BOUNDS = {}
OUTSIDE = ["buffers longer than the stated N", "TLS sockets, pcap capture sockets", "errors from accept() on the listening socket"]
ASSUMPTIONS = ["select/recv/send are scripted (props/env.py FakeSocket); no real threads; deferred sender idle",
               "controller-side message handlers replaced by recorders"]


class Dummy:
  sending = False
  def send(self, con, data): pass
  def kill(self, con): pass


class Counting(list):
  """unpacker table that counts dispatches (termination budget)"""
  def __init__(self, real, budget, flag):
    list.__init__(self, real); self.n = 0; self.budget = budget; self.flag = flag; self.spans = []; self.iso = []
  def __getitem__(self, i):
    self.n += 1
    if self.n > self.budget:
      self.flag.append('nonterminating')
      raise RuntimeError("step budget exceeded (non-termination)")
    f = list.__getitem__(self, i)
    if f is None: return f
    def unpack(raw, offset=0):
      r = f(raw, offset)
      self.spans.append((offset, r[0]))
      # isolation oracle: decode the same message again from a buffer that *ends* at its declared length - a decoder that looks at
      # bytes of the following message then fails or yields a different object
      ln = int((raw[offset + 2] << 8) | raw[offset + 3])
      try:
        r2 = f(raw[:offset + ln], offset)
      except Exception as e:
        r2 = (None, 'raised ' + type(e).__name__)
      self.iso.append((r, r2))
      return r
    return unpack


def _finish(core, g):
  # let the generator run to its end (the controller loop swallows GeneratorExit, so close() cannot be used)
  core.running = False
  try:
    for _ in range(3): g.send(([], [], []))
  except BaseException:
    pass
  core.running = True


def echo_bytes(xid, body=b''):
  n = 8 + len(body)
  return bytes([1, 2, n >> 8, n & 255, (xid >> 24) & 255, (xid >> 16) & 255, (xid >> 8) & 255, xid & 255]) + body


def _repack(msg):
  # the recorder must not fail where POX's own handlers would not: a decoded message that its own validator refuses to re-encode
  # (e.g. a packet-in whose total_len is smaller than its data) is recorded without bytes
  try:
    return msg.pack()
  except Exception:
    return None


def isolation_clauses(ctx, table):
  for (o1, m1), (o2, m2) in table.iso:
    same = o2 is not None and bool(o1 == o2)
    if same:
      b1, b2 = _repack(m1), _repack(m2)
      same = ctx.Eq(b1, b2) if (b1 is not None and b2 is not None) else (b1 is None and b2 is None and type(m1) is type(m2))
    ctx.check('a decoded message depends only on the bytes within its declared length', same)


def h_controller(ctx, n, shape=None):
  core = env.get_core()
  import socket as realsocket
  of01 = ctx.pox('pox.openflow.of_01')
  of = ctx.pox('pox.openflow.libopenflow_01')
  of01.deferredSender = Dummy()
  fsm = env.FakeSocketModule(realsocket)
  of01.socket = fsm
  task = of01.OpenFlow_01_Task(port=6633, address='0.0.0.0')
  g = task.run()
  sel = next(g)
  listener = fsm.created[0]
  socks = [env.FakeSocket(eof=False), env.FakeSocket(eof=False)]
  pend = list(socks)
  listener.accept = lambda: (pend.pop(0), ('10.0.0.9', 1))
  sel = g.send(([listener], [], [])); sel = g.send(([listener], [], []))
  cons = [c for c in sel._args[0] if c is not listener]
  assert len(cons) == 2
  conA, conB = cons
  flag = []
  delivered = {id(conA): [], id(conB): []}
  for c in cons:
    if shape == 'handshake' and c is conA: continue          # connection A keeps its real (handshake) handlers
    c.handlers = [(lambda con, msg, t=t: delivered[id(con)].append((t, _repack(msg)))) for t in range(len(c.handlers))]
  conA.unpackers = Counting(conA.unpackers, n // 8 + 2, flag)
  if shape == 'handshake':
    # well-framed handshake traffic whose last message answers the controller's barrier with a *symbolic* xid (right or wrong): hello,
    # features reply, barrier reply
    of01.time = env.Clock(100)
    ofp = ctx.pox('pox.openflow')
    core.components['openflow'] = ofp.OpenFlowNexus()
    core.components['OpenFlowConnectionArbiter'] = ofp.OpenFlowConnectionArbiter(default=False)
    fr = of.ofp_features_reply(datapath_id=9, xid=5); fr.ports.append(of.ofp_phy_port(port_no=1, name='p1'))
    data = env.tobytes(ctx, list(of.ofp_hello().pack()) + list(fr.pack()) + [1, 19, 0, 8] + list(ctx.bytes('barrier_xid', 4)))
    n = len(data)
    conA.unpackers.budget = 8
  else:
    data = ctx.bytes('data', n)
  b1 = echo_bytes(0x11111111, b'ab'); b2 = echo_bytes(0x22222222)
  alive = True
  try:
    try:
      socks[1].feed(b1)
      sel = g.send(([conB], [], []))
      socks[0].feed(data)
      sel = g.send(([conA], [], []))
      socks[1].feed(b2)
      sel = g.send(([conB], [], []))
    except StopIteration:
      alive = False
  except BaseException:
    _finish(core, g)
    raise
  ctx.check('terminates within step budget', not flag)
  ctx.check('I/O loop keeps running', alive)
  ctx.check('sibling connection receives its messages unchanged', delivered[id(conB)] == [(2, b1), (2, b2)])
  ctx.check('sibling connection stays open', alive and conB in sel._args[0] and not socks[1].closed)
  if alive:
    # whatever the loop still selects on is a usable descriptor (a closed socket left in the set makes the next select() fail for everybody)
    ctx.check('no closed connection is left in the select set', all(c is listener or not (c.sock.closed if hasattr(c, 'sock') else False) for c in sel._args[0]))
  if alive and shape == 'handshake':
    ctx.witness('kept-open' if conA in sel._args[0] else 'closed')
  elif alive:
    if conA in sel._args[0]:
      ctx.witness('kept-open')
      # whatever was delivered came from whole declared frames, in order, and the residue is an incomplete frame
      consumed = 0
      for a, b in conA.unpackers.spans:
        ctx.check('frames are contiguous', a == consumed)
        ctx.check('decoder consumed exactly the declared length', ((data[a + 2] << 8) | data[a + 3]) == b - a)
        ctx.check('no message of an unsupported version is decoded (a HELLO of another version is tolerated)', ctx.Or(data[a] == 1, data[a + 1] == 0))
        consumed = b
      # every decoded frame whose type has a handler slot is delivered exactly once (types without one are logged and skipped)
      nh = len(conA.handlers)
      due = sum(1 for a, b in conA.unpackers.spans if bool(data[a + 1] < nh))
      ctx.check('one delivery per decoded frame that has a handler', len(delivered[id(conA)]) == due)
      ctx.check('residual buffer is the unconsumed tail', ctx.Eq(conA.buf, data[consumed:]))
      isolation_clauses(ctx, conA.unpackers)
      rest = conA.buf
      if len(rest) >= 8:
        ln = (rest[2] << 8) | rest[3]
        ctx.check('no complete frame left stuck', ln > len(rest))
    else:
      ctx.witness('closed')
      ctx.check('closed connection socket is closed', socks[0].closed or socks[0].shut)
  _finish(core, g)


def h_switch(ctx, n, big=False, real_switch=False, shape=None):
  core = env.get_core()
  iow = ctx.pox('pox.lib.ioworker')
  sw = ctx.pox('pox.datapaths.switch')
  of = ctx.pox('pox.openflow.libopenflow_01')
  iow.makePinger = lambda: env.DummyPinger()
  loop = iow.RecocoIOLoop()
  g = loop.run()
  socks = [env.FakeSocket(eof=False), env.FakeSocket(eof=False)]
  workers = [loop.new_worker(s) for s in socks]
  got = {0: [], 1: []}
  conns = []
  flag = []
  for i, w in enumerate(workers):
    c = sw.OFConnection(w)
    c.set_message_handler(lambda con, msg, i=i: got[i].append((msg.header_type, _repack(msg))))
    conns.append(c)
  if real_switch:
    # connection A belongs to a real SoftwareSwitch: its handlers run on whatever decodes (and raise for what a switch does not accept -
    # the ERR_EXCEPTION path of OFConnection.read)
    the_switch = sw.SoftwareSwitch(dpid=5, ports=2, max_buffers=0)
    the_switch.set_connection(conns[0])
  conns[0].unpackers = Counting(conns[0].unpackers, 2 * (n // 4 + 2), flag)
  # the read loop may also spin without ever dispatching: budget on looks at the receive buffer
  real_peek = workers[0].peek; peeks = [0]
  def peek():
    peeks[0] += 1
    if peeks[0] > 4 * (n // 4 + 2) + 40:
      flag.append('nonterminating'); raise RuntimeError("step budget exceeded (non-termination)")
    return real_peek()
  workers[0].peek = peek
  sel = next(g)
  if big:
    # one maximal message: version 1, type in {10,13,14,16,99,200,1,2,3,4} (the last four decode at any length: error, echo request/reply, vendor - their handlers may raise or reply at full size), symbolic xid, declared length 0xffe0..0xffff, 65535 bytes buffered (body zeros)
    data = env.tobytes(ctx, [1, [10, 13, 14, 16, 99, 200, 1, 2, 3, 4][int(ctx.int('typeidx', 0, 9))], 0xff, ctx.int('lenlow', 0xe0, 255)] + list(ctx.bytes('xid', 4)) + [0] * (n - 8))
  elif shape == 'packet_out':
    # a PACKET_OUT header whose declared length (16..n) and actions_len are symbolic, followed by symbolic bytes: action lists that end in a
    # stub of 1-3 bytes, actions_len beyond the message, ... (type and version fixed, so that the 20 bytes are cheap to explore)
    sy = ctx.bytes('data', n - 4)
    data = env.tobytes(ctx, [1, 13, 0, 16 + (sy[0] & 7)] + list(sy[1:11]) + [0, sy[11] & 15] + list(sy[12:]))
  elif shape == 'flow_mod':
    sy = ctx.bytes('data', 12)
    fm = list(of.ofp_flow_mod().pack())
    data = env.tobytes(ctx, [1, 14, 0, 72 + (sy[0] & 7)] + list(sy[1:5]) + fm[8:72] + list(sy[5:12]))
  else:
    data = ctx.bytes('data', n)
  b1 = echo_bytes(0x11111111, b'ab'); b2 = echo_bytes(0x22222222); b3 = echo_bytes(0x33333333, b'xyz')
  alive = True; later = False; closedA = False; n0 = rest0 = sent0 = nsp0 = 0; restA = b''
  wA, wB = workers
  try:
    socks[1].feed(b1)
    sel = g.send(([wB], [], []))
    socks[0].feed(data)
    sel = g.send(([wA], [], []))
    while socks[0].chunks: sel = g.send(([wA], [], []))        # a long input arrives in several recv() calls
    socks[1].feed(b2)
    sel = g.send(([wB], [], []))
    sel = g.send(([], [], []))
    # a later TCP segment on connection A (a well-formed echo request): a connection that was closed because of what it received stays
    # closed - nothing is decoded from bytes that follow; a connection that was served and has nothing buffered decodes it normally
    # (the loop gets the chance to write out what connection A has queued - an error reply, and the shutdown that follows it)
    for _ in range(3):
      if wA in loop._workers and wA._ready_to_send and not socks[0].closed: sel = g.send(([], [wA], []))
    # closed means closed: the socket was shut down or closed - a connection merely *marked* for shutdown stays open for its peer
    closedA = wA.closed or socks[0].closed or socks[0].shut; n0 = len(got[0]); restA = wA.receive_buf; rest0 = len(restA); sent0 = len(wA.send_buf)
    nsp0 = len(conns[0].unpackers.spans)
    if not big and wA in loop._workers and not socks[0].closed and (closedA or rest0 == 0):
      later = True
      socks[0].feed(b3)
      sel = g.send(([wA], [], []))
      sel = g.send(([], [], []))
  except StopIteration:
    alive = False
  ctx.check('terminates within step budget', not flag)
  ctx.check('I/O loop keeps running', alive)
  ctx.check('sibling connection receives its messages unchanged', got[1] == [(2, b1), (2, b2)])
  ctx.check('sibling connection stays open', not wB.closed)
  if later:
    if closedA:
      ctx.witness('later-segment-on-closed')
      ctx.check('a connection closed for what it received decodes nothing from later segments', len(got[0]) == n0 and len(conns[0].unpackers.spans) == nsp0)
    elif rest0 == 0:
      ctx.witness('later-segment-on-served')
      ctx.check('a served connection decodes the next message normally', conns[0].unpackers.spans[nsp0:] == [(0, len(b3))] and (real_switch or got[0][n0:] == [(2, b3)]))
  isolation_clauses(ctx, conns[0].unpackers)
  if not closedA:
    ctx.witness('kept-open')
    rest = restA
    if len(rest) >= 4:
      ln = (rest[2] << 8) | rest[3]
      ctx.check('no complete frame left stuck', ctx.And(rest[0] == 1, ln > len(rest)))
    # every skipped or handled message accounts for its declared length only
    consumed = n - len(rest)
    ctx.check('residual buffer is a tail of the input', ctx.Eq(rest, data[consumed:]))
  else:
    ctx.witness('closed')
  g.close()


def obligations(tier):
  thorough = tier != 'quick'
  ns_c = [8, 12, 16] + ([20] if thorough else [])
  ns_s = [4, 8, 12, 16] + ([20] if thorough else [])
  BOUNDS[tier] = dict(controller_buffer_bytes=ns_c, switch_buffer_bytes=ns_s, content="all bytes unconstrained",
                      placement="between two valid echo requests on a sibling connection",
                      big_message="switch side: one 65535-byte buffer, version 1, six types, symbolic xid, declared length 0xffe0..0xffff, zero body")
  return [
    Obligation('O1_controller', h_controller, [dict(n=k) for k in ns_c] + [dict(n=0, shape='handshake')], witnesses=('kept-open', 'closed'), max_decisions=20000, conc_cap=300,
               desc='controller I/O loop: N unconstrained bytes on one connection; termination, containment, sibling delivery'),
    Obligation('O2_switch', h_switch, [dict(n=k) for k in ns_s] + [dict(n=k, real_switch=True) for k in (8, 12)] + [dict(n=20, shape='packet_out'), dict(n=79, shape='flow_mod')] + [dict(n=65535, big=True), dict(n=65535, big=True, real_switch=True)], witnesses=('kept-open', 'closed', 'later-segment-on-closed', 'later-segment-on-served'), max_decisions=20000,
               desc='switch I/O loop + OFConnection.read: N unconstrained bytes; termination, containment, sibling delivery, no stuck frame'),
  ]
