"""C20 - send path preserves the byte stream under partial writes and back-pressure."""
import errno
from symx.run import Obligation
from props import env

CLAIM = {
 'technique': "bounded symbolic execution of the real send paths with z3 (symx, QF_BV): symbolic message bytes, symbolic per-call socket outcomes and op interleavings",
 'text': "Up to 3 messages with symbolic contents are queued on the real controller Connection (send + DeferredSender.run body, driven without a thread "
         "through a scripted select) and on the real switch-side IOWorker/RecocoIOWorker (send, send_fast, _do_send); every socket call's outcome is "
         "symbolic (accept k of n bytes with symbolic k, EAGAIN, fatal error) and the interleaving of further sends with flush rounds is a symbolic "
         "selector. On every path z3 proves the accepted bytes are a prefix of - and at quiescence equal to - the concatenation of the queued messages, "
         "that nothing is written after a fatal error and that the close notification fires exactly once. O3_threads: the cooperative thread calling "
         "Connection.send() for 3 messages and the DeferredSender thread running its real run() loop are real threads run one source statement of "
         "of_01.py at a time; the interleaving is a solver variable, every schedule with at most 1 (thorough 2) preemptions is explored for 5 concrete "
         "short-write / EAGAIN socket scripts: accepted stream == queued stream in order, no deadlock, nothing left unflushed."
         " Also: two connections behind the one DeferredSender (O4), shutdown with more than one I/O buffer queued (O5), data queued while the non-blocking connect is in progress (O6) and a close handler that uses the worker again. O4_two_connections includes a fatal error on one connection while both are backed up.",
 'note': "Trusted: CPython, z3, symx proxies/shims, scripted socket/select (props/env.py). O1 exercises DeferredSender at lock granularity; O3 at "
         "source-statement granularity with RLock/select/waker models (props/ilv.py) under the stated preemption bound; interleavings inside one statement, more "
         "preemptions, and fatal errors during threaded flushing are outside the claim.",
}
EXPLANATION = ("Real Connection.send / DeferredSender.send,_sliceup,run and IOWorker.send,_do_send,_consume_send_buf / RecocoIOWorker.send,send_fast "
               "executed with symbolic message bytes and symbolic socket outcomes; stream-prefix and close-once assertions decided by z3 per path.")
FUNCTIONS = ["pox.openflow.of_01.Connection.send/disconnect", "pox.openflow.of_01.DeferredSender.send/_sliceup/kill/run",
             "pox.lib.ioworker.IOWorker.send/_do_send/_consume_send_buf/close", "pox.lib.ioworker.RecocoIOWorker.send/send_fast/close"]
BOUNDS = {}
OUTSIDE = ["more than 3 messages / 5 socket calls", "real-time thread interleavings below lock granularity", "messages longer than 12 bytes (PIPE_BUF is set to 8 to exercise slicing)"]
ASSUMPTIONS = ["socket.send outcome per call is one of {k of n bytes accepted (0<=k<=n), EAGAIN, fatal error}", "select reports the connection writable whenever asked"]


class Sock(env.FakeSocket):
  """socket whose send outcomes are symbolic: code 0 = accept k of n, 1 = EAGAIN, 2 = fatal"""
  def __init__(self, ctx, maxcalls, tag=''):
    env.FakeSocket.__init__(self, eof=False)
    self.tag = tag; self.coarse = False
    self.ctx = ctx; self.accepted = []; self.calls = 0; self.maxcalls = maxcalls; self.fatal = False; self.after_fatal = 0
  def send(self, data, flags=0):
    ctx = self.ctx
    if self.fatal: self.after_fatal += 1
    i = self.calls; self.calls += 1
    if i >= self.maxcalls:
      # beyond the scripted bound: accept everything (quiescence)
      self.accepted.append(data); return len(data)
    code = ctx.int('%sout%d' % (self.tag, i), 0, 3 if self.coarse else 2)
    if code == 1: raise OSError(errno.EAGAIN, 'would block')
    if self.coarse and code == 3:        # (coarse alphabet) a fatal error - also while the other connection has data backed up
      self.fatal = True
      raise OSError(errno.ECONNRESET, 'reset')
    if self.coarse:
      # coarse outcome alphabet (two-connection obligation): everything / EAGAIN / a short write of half the bytes
      k = len(data) if code == 0 else len(data) // 2
      self.accepted.append(data[:k]); return k
    if code == 2:
      self.fatal = True
      raise OSError(errno.ECONNRESET, 'reset')
    k = ctx.int('%sk%d' % (self.tag, i), 0, len(data))
    k = int(k)
    self.accepted.append(data[:k])
    return k


def _concat(ctx, parts):
  out = []
  for p in parts: out.extend(list(p))
  return out


def _prefix_check(ctx, sock, queued, quiescent):
  got = _concat(ctx, sock.accepted); exp = _concat(ctx, queued)
  ctx.check('accepted bytes are a prefix of the queued stream (length)', len(got) <= len(exp))
  if len(got) <= len(exp):
    ctx.check('accepted bytes are a prefix of the queued stream', ctx.Eq(env.tobytes(ctx, got), env.tobytes(ctx, exp[:len(got)])))
  if quiescent and not sock.fatal:
    ctx.check('at quiescence everything was written', len(got) == len(exp))


class FakeSelect:
  def __init__(self, core, rounds):
    self.core = core; self.rounds = rounds; self.n = 0
  def select(self, r, w, x, timeout=None):
    self.n += 1
    if self.n > self.rounds:
      self.core.running = False
      return [], [], []
    return [], list(w), []
  def __getattr__(self, n):
    import select as _s
    return getattr(_s, n)


def h_controller(ctx, nmsgs, ncalls, plan):
  """plan: string over 's' (Connection.send of next message) and 'f' (one DeferredSender flush round)"""
  core = env.get_core()
  of01 = ctx.pox('pox.openflow.of_01')
  of01.PIPE_BUF = 8
  of01.DeferredSender.start = lambda self: None            # never start the thread; run() is driven below
  import pox.lib.util as plu
  realping = plu.makePinger
  of01.pox.lib.util.makePinger = lambda: env.DummyPinger()
  try:
    ds = of01.DeferredSender()
  finally:
    of01.pox.lib.util.makePinger = realping
  of01.deferredSender = ds
  sock = Sock(ctx, ncalls)
  sock.maxcalls = 0
  con = of01.Connection(sock)                              # sends hello (accepted entirely, not part of the script)
  sock.accepted = []; sock.calls = 0; sock.maxcalls = ncalls
  downs = []
  con.dpid = 1
  con.addListenerByName('ConnectionDown', lambda e: downs.append(e))
  msgs = [ctx.bytes('m%d' % i, 8 + 2 * i) for i in range(nmsgs)]
  queued = []
  nxt = 0
  def flush(rounds):
    fs = FakeSelect(core, rounds)
    of01.select = fs
    core.running = True
    try:
      ds.run()
    finally:
      core.running = True
  for op in plan:
    if op == 's' and nxt < nmsgs:
      m = msgs[nxt]; nxt += 1
      if not con.disconnected: queued.append(m)
      con.send(m)
    elif op == 'f':
      flush(1)
    _prefix_check(ctx, sock, queued, False)
  flush(nmsgs * 3 + ncalls + 2)      # quiescence: keep flushing (outcomes beyond the script accept everything)
  _prefix_check(ctx, sock, queued, True)
  ctx.check('nothing written after a fatal error', sock.after_fatal == 0)
  if sock.fatal:
    ctx.witness('fatal')
    ctx.check('connection marked disconnected', con.disconnected)
    con.close()                                            # what the I/O loop does when it notices
    ctx.check('closed reported exactly once', len(downs) == 1)
  else:
    ctx.witness('clean')
    ctx.check('queue drained', len(ds._dataForConnection) == 0 and ds.sending is False)


def h_two(ctx, plan, ncalls):
  """two controller connections share the one DeferredSender (its `sending` flag is global).  plan letters: a / b = Connection.send of the next
  message on connection A / B, f = one flush round in which select reports a *symbolic subset* of the backed-up connections writable."""
  core = env.get_core()
  of01 = ctx.pox('pox.openflow.of_01')
  of01.PIPE_BUF = 8
  of01.DeferredSender.start = lambda self: None
  import pox.lib.util as plu
  realping = plu.makePinger
  of01.pox.lib.util.makePinger = lambda: env.DummyPinger()
  try:
    ds = of01.DeferredSender()
  finally:
    of01.pox.lib.util.makePinger = realping
  of01.deferredSender = ds
  socks = {}; cons = {}; queued = {'a': [], 'b': []}
  for t in 'ab':
    sk = Sock(ctx, ncalls, tag=t); sk.maxcalls = 0; sk.coarse = True
    cons[t] = of01.Connection(sk); socks[t] = sk
    sk.accepted = []; sk.calls = 0; sk.maxcalls = ncalls
  nround = [0]
  class Sel:
    def __init__(self, rounds, everything, exc_a=False): self.n = 0; self.rounds = rounds; self.everything = everything; self.exc_a = exc_a
    def select(self, r, w, x, timeout=None):
      self.n += 1
      if self.n > self.rounds:
        core.running = False
        return [], [], []
      w = list(w)
      if any(c.fileno() < 0 for c in list(r) + w + list(x) if hasattr(c, 'fileno')): raise ValueError("file descriptor cannot be a negative integer (-1)")      # as select.select does
      if self.everything: return [], w, []
      if self.exc_a:
        # select reports an exceptional condition on connection A (and nothing else) in this round
        return [], [], [c for c in x if c is cons['a']]
      nround[0] += 1
      return [], [c for c in w if bool(ctx.bool('writable_%s_%d' % ('a' if c is cons['a'] else 'b', nround[0])))], []
    def __getattr__(self, n):
      import select as _s
      return getattr(_s, n)
  def flush(rounds, everything=False, exc_a=False):
    of01.select = Sel(rounds, everything, exc_a)
    core.running = True
    try: ds.run()
    finally: core.running = True
  cnt = {'a': 0, 'b': 0}; lost = set(); given_up = []
  def check(quiescent):
    for t in 'ab':
      got = _concat(ctx, socks[t].accepted); exp = _concat(ctx, queued[t])
      ctx.check('connection %s: accepted bytes are a prefix of its queued stream (length)' % t.upper(), len(got) <= len(exp))
      if len(got) <= len(exp):
        ctx.check('connection %s: accepted bytes are a prefix of its queued stream' % t.upper(), ctx.Eq(env.tobytes(ctx, got), env.tobytes(ctx, exp[:len(got)])))
      if quiescent and not socks[t].fatal and t not in lost: ctx.check('connection %s: at quiescence everything was written' % t.upper(), len(got) == len(exp))
  for op in plan:
    if op in 'ab':
      m = ctx.bytes('m%s%d' % (op, cnt[op]), 8 + 2 * cnt[op]); cnt[op] += 1
      if not cons[op].disconnected: queued[op].append(m)
      cons[op].send(m)
    elif op == 'e':
      # an exceptional condition on connection A while it may have data backed up: whatever the sender drops for it, the connection must not go on
      # as if nothing had happened (a stream with a hole in it) - it is given up: disconnected, nothing further written to it
      had = cons['a'] in ds._dataForConnection
      flush(1, exc_a=True)
      if had: ctx.witness('exceptional-with-backlog')
      if cons['a'].disconnected:          # given up: then nothing more is written to it; otherwise its stream has to stay whole (the clauses below)
        lost.add('a'); given_up.append(len(socks['a'].accepted))
    elif op == 'x':
      # connection A is lost on the read side (the OpenFlow task closes it) while it may still have data backed up in the deferred sender
      cons['a'].close(); lost.add('a'); ctx.witness('lost-with-backlog' if cons['a'] in ds._dataForConnection else 'lost')
    else:
      flush(1)
    check(False)
  flush(len(plan) * 3 + 2 * ncalls + 2, everything=True)
  check(True)
  for t in 'ab': ctx.check('connection %s: nothing written after a fatal error' % t.upper(), socks[t].after_fatal == 0)
  if given_up: ctx.check('connection A: nothing written after it was given up', len(socks['a'].accepted) == given_up[0])
  if socks['a'].fatal or socks['b'].fatal: ctx.witness('fatal')
  else:
    ctx.witness('clean')
    ctx.check('queue drained', len(ds._dataForConnection) == 0 and ds.sending is False)


def h_ioworker(ctx, nmsgs, ncalls, plan):
  """plan over 's' (send), 'q' (send_fast), 'w' (_do_send round)"""
  core = env.get_core()
  iow = ctx.pox('pox.lib.ioworker')
  sock = Sock(ctx, ncalls)
  w = iow.RecocoIOWorker(sock)
  w.pinger = env.DummyPinger()
  closes = []
  w.on_close = lambda worker: closes.append(worker)
  # the application's close handler uses the worker once more - says goodbye and closes it defensively (re-entrant use while the close is in
  # progress): the dead socket is not written to, and the close is still reported once
  handled = []
  def on_closed(worker):
    handled.append(worker)
    if len(handled) < 5: worker.send_fast(b'BYE'); worker.close()
  w.close_handler = on_closed
  class Loop:
    _workers = set(); _BUF_SIZE = 8192
  loop = Loop(); loop._workers = {w}
  msgs = [ctx.bytes('m%d' % i, 8 + 2 * i) for i in range(nmsgs)]
  queued = []; nxt = 0
  for op in plan:
    if op in 'sq' and nxt < nmsgs:
      m = msgs[nxt]; nxt += 1
      if not w.closed: queued.append(m)
      # the client keeps calling send()/send_fast() after the worker was closed by a fatal error: nothing of it may reach the socket
      (w.send if op == 's' else w.send_fast)(m)
    elif op == 'w':
      if not w.closed: w._do_send(loop)
    _prefix_check(ctx, sock, queued, False)
  for _ in range(nmsgs * 3 + ncalls + 2):
    if not w.closed and w._ready_to_send: w._do_send(loop)
  _prefix_check(ctx, sock, queued, True)
  ctx.check('nothing written after a fatal error', sock.after_fatal == 0)
  if sock.fatal:
    ctx.witness('fatal')
    ctx.check('worker closed', w.closed)
    ctx.check('close reported exactly once', len(closes) == 1)
    ctx.check('the close handler runs exactly once', len(handled) == 1)
  else:
    ctx.witness('clean')
    ctx.check('send buffer drained', len(w.send_buf) == 0)


class ScriptSock:
  """socket whose send() outcomes are a concrete script: an int = accept that many bytes, 'all', 'again' (EAGAIN)"""
  def __init__(self, script):
    self.script = list(script); self.accepted = []; self.calls = 0; self.by = []
  def send(self, data, flags=0):
    import threading
    o = self.script.pop(0) if self.script else 'all'
    self.calls += 1
    if o == 'again': raise OSError(errno.EAGAIN, 'would block')
    k = len(data) if o == 'all' else min(int(o), len(data))
    self.accepted.append(bytes(data[:k]))
    return k
  def fileno(self): return 77
  def close(self): pass
  def shutdown(self, how=None): pass
  def setblocking(self, b): pass
  def getpeername(self): return ('10.0.0.1', 6633)
  def getsockname(self): return ('10.0.0.2', 12345)


def h_threads(ctx, script, nmsgs, bound):
  """The cooperative thread calling Connection.send() and the DeferredSender thread running its real run() loop are two real threads run one
  source statement of of_01.py at a time (props/ilv.py); the interleaving is chosen by solver variables, every schedule with <= bound preemptions
  is explored.  RLock, select and the waker are models; socket outcomes follow a concrete script of short writes / EAGAIN."""
  import gc, sys, io
  from props import ilv
  core = env.get_core()
  of01 = ctx.pox('pox.openflow.of_01')
  of01.PIPE_BUF = 8
  gc.collect(); gc.disable()
  names = ('send', 'run', '_sliceup', 'kill')
  ctl = ilv.Controller(ctx, [of01.__file__], bound, line_filter=lambda frame, st: frame.f_code.co_name in names)
  saved = (of01.DeferredSender.start, of01.select, of01.pox.lib.util.makePinger, getattr(of01, 'deferredSender', None))
  problems = []
  try:
    of01.DeferredSender.start = lambda self: None
    of01.pox.lib.util.makePinger = lambda: ilv.MPinger()
    ds = of01.DeferredSender()
    ds._lock = ilv.MRLock(ctl)
    of01.deferredSender = ds
    class Sel:
      def select(self_, r, w, x, timeout=None):
        w = list(w)
        if w: return [p for p in r if p.flag], w, []          # the connection's socket is writable
        ok = ctl.block(lambda: any(p.flag for p in r), timeout, 'select')
        return ([p for p in r if p.flag], [], []) if ok else ([], [], [])
      def __getattr__(self_, n):
        import select as _s
        return getattr(_s, n)
    of01.select = Sel()
    sock = ScriptSock(['all'])
    con = of01.Connection(sock)                              # hello
    sock.accepted = []; sock.script = list(script)
    msgs = [bytes([0x41 + i] * (6 + 2 * i)) for i in range(nmsgs)]
    def sender():
      for m in msgs: con.send(m)
    core.running = True
    tds = ctl.spawn('ds', ds.run)
    tmain = ctl.spawn('coop', sender); tmain.prio = 0
    polls = [0]
    def pending():
      return len(b''.join(sock.accepted)) < sum(len(m) for m in msgs)
    def on_stuck(timed):
      if tmain.done and not pending(): return 'quit'
      polls[0] += 1
      if polls[0] == 1: problems.append('queued bytes are not written although every thread is blocked (only the 5 s select timeout would flush them)')
      if polls[0] > 3: return 'quit'
      return 'timeout' if timed else 'deadlock'
    try:
      ctl.run(None, on_stuck)
    finally:
      core.running = False
      stuck = ctl.drain()
      core.running = True
    if stuck: problems.append('threads did not finish: %r' % stuck)
    problems += ctl.problems
    for t in ctl.threads:
      if t.exc is not None: problems.append('thread %s raised %r' % (t.name, t.exc))
  finally:
    gc.enable()
    of01.DeferredSender.start, of01.select, of01.pox.lib.util.makePinger = saved[:3]
  if problems and not ctx.sym: print(problems)
  got = b''.join(sock.accepted); exp = b''.join(msgs)
  ctx.check('no deadlock, nothing left unflushed, no crash', not problems)
  ctx.check('accepted bytes are a prefix of the queued stream', exp.startswith(got))
  ctx.check('at quiescence everything was written, in order', got == exp)
  if ctl.preemptions == bound: ctx.witness('bound-reached')
  ctx.witness('done')


def h_shutdown(ctx, sizes, script):
  """switch side, "send what is queued, then close" (IOWorker.shutdown(), used by OFConnection.close()): messages larger than the I/O loop's
  buffer size are queued, shutdown() is requested, the loop flushes with the scripted socket outcomes.  Every queued byte reaches the socket,
  in order, before the sending direction is shut down - which happens exactly once, and nothing is written afterwards."""
  core = env.get_core()
  iow = ctx.pox('pox.lib.ioworker')
  class S(ScriptSock):
    def __init__(self, script): ScriptSock.__init__(self, script); self.shut_at = []; self.after_shut = 0
    def send(self, data, flags=0):
      if self.shut_at: self.after_shut += 1
      o = self.script.pop(0) if self.script else 'all'
      self.calls += 1
      if o == 'again': raise OSError(errno.EAGAIN, 'would block')
      k = len(data) if o == 'all' else min(int(o), len(data))
      self.accepted.append(data[:k])          # (kept symbolic)
      return k
    def shutdown(self, how=None): self.shut_at.append(sum(len(x) for x in self.accepted))
  sock = S(script)
  w = iow.RecocoIOWorker(sock)
  w.pinger = env.DummyPinger()
  closes = []
  w.on_close = lambda worker: closes.append(worker)
  class Loop: _BUF_SIZE = 8192
  loop = Loop(); loop._workers = {w}
  queued = []
  for i, n in enumerate(sizes):
    e = ctx.bytes('edge%d' % i, 4)
    m = env.tobytes(ctx, list(e[:2]) + [(k * 11 + i) & 0xff for k in range(n - 4)] + list(e[2:]))
    queued.append(m); w.send(m)
  w.shutdown()
  total = sum(sizes)
  for _ in range(len(script) + total // 1000 + 6):
    if not w.closed and w._ready_to_send: w._do_send(loop)
  got = [x for part in sock.accepted for x in list(part)]; exp = [x for m in queued for x in list(m)]
  ctx.check('every queued byte was written', len(got) == len(exp))
  if len(got) == len(exp): ctx.check('in order', ctx.Eq(env.tobytes(ctx, got), env.tobytes(ctx, exp)))
  ctx.check('the sending direction is shut down exactly once, after the last queued byte', sock.shut_at == [total])
  ctx.check('nothing is written after the shutdown', sock.after_shut == 0)
  ctx.check('the peer never failed: the worker is not reported closed', not closes)
  ctx.witness('done')


def h_connecting(ctx, nmsgs, script, how):
  """a worker whose non-blocking connect() is still in progress (PersistentIOWorker between construction and connect completion): what the
  client queues meanwhile is written, in order, once the connection is up - followed by what the connect handler sends"""
  core = env.get_core()
  iow = ctx.pox('pox.lib.ioworker')
  class S(ScriptSock):
    def send(self, data, flags=0):
      o = self.script.pop(0) if self.script else 'all'
      self.calls += 1
      if o == 'again': raise OSError(errno.EAGAIN, 'would block')
      k = len(data) if o == 'all' else min(int(o), len(data))
      self.accepted.append(data[:k]); return k
    def recv(self, n, flags=0): raise OSError(errno.EAGAIN, 'would block')      # MSG_PEEK on a connected, silent socket
  sock = S(script)
  w = iow.RecocoIOWorker(sock)
  w.pinger = env.DummyPinger()
  w.on_close = lambda worker: None
  hello = b'<HELLO>'
  w.connect_handler = lambda worker: worker.send(hello)
  w._connecting = True
  class Loop: _BUF_SIZE = 8192
  loop = Loop(); loop._workers = {w}
  msgs = [ctx.bytes('m%d' % i, 6 + 2 * i) for i in range(nmsgs)]
  for i, m in enumerate(msgs): (w.send if (how == 'send' or i % 2) else w.send_fast)(m)
  ctx.check('nothing is written before the connection is up', sock.accepted == [])
  for _ in range(len(script) + 6):
    if not w.closed and (w._connecting or w._ready_to_send): w._do_send(loop)
  got = [x for part in sock.accepted for x in list(part)]; exp = [x for m in msgs for x in list(m)] + list(hello)
  ctx.check('everything queued while connecting was written, then the connect handler\'s data', len(got) == len(exp) and ctx.Eq(env.tobytes(ctx, got), env.tobytes(ctx, exp)))
  ctx.witness('done')


def h_loop_iteration(ctx, nq):
  """the real RecocoIOLoop.run body, one worker that select() reports readable **and** writable in the same round while `nq` bytes are queued
  for it: the receive step comes first - solver-chosen outcome {data, would-block, end of stream, fatal error} -; after a fatal receive error
  (the worker is closed) nothing is written to that socket in the rest of the round or later, and it is reported closed once"""
  import errno as _e
  core = env.get_core()
  iow = ctx.pox('pox.lib.ioworker')
  class S(env.FakeSocket):
    def __init__(self): env.FakeSocket.__init__(self, eof=False); self.after_dead = 0; self.dead = False; self.outcome = None
    def recv(self, n, flags=0):
      if self.outcome == 0: return b'\x01\x02\x03'
      if self.outcome == 1: raise BlockingIOError(_e.EAGAIN, 'would block')
      if self.outcome == 2: self.dead = True; return b''
      self.dead = True; raise OSError(_e.ECONNRESET, 'reset')
    def send(self, data, flags=0):
      if self.dead or self.closed: self.after_dead += 1
      return env.FakeSocket.send(self, data, flags)
  loop = iow.RecocoIOLoop()
  loop.pinger = env.DummyPinger()
  sock = S(); w = iow.RecocoIOWorker(sock); w.pinger = loop.pinger
  closes = []
  w.close_handler = lambda worker: closes.append(worker)
  loop.register_worker(w)                     # (sets the worker's on_close; taken up by the loop's first round)
  payload = ctx.bytes('queued', nq)
  w.send(payload)
  g = loop.run()
  next(g)
  sock.outcome = int(ctx.int('recv_outcome', 0, 3))
  try:
    g.send(([w], [w], []))
    if w in loop._workers and not sock.closed and w._ready_to_send: g.send(([], [w], []))
  except StopIteration:
    ctx.check('the I/O loop keeps running', False)
  if sock.outcome >= 2:
    ctx.witness('receive-side loss')
    ctx.check('nothing is written to the socket after the fatal receive outcome', sock.after_dead == 0)
    ctx.check('the worker is closed and reported closed once', w.closed and len(closes) == 1)
  else:
    ctx.witness('alive')
    got = sock.sent[0] if len(sock.sent) == 1 else None
    ctx.check('the queued bytes were written once, unchanged', got is not None and ctx.Eq(env.tobytes(ctx, list(got)), payload))
  g.close()


def obligations(tier):
  thorough = tier != 'quick'
  cplans = ['ssf', 'sfs', 'sffs', 'ssfsf'] + (['sssff', 'sfsfsf', 'ssffs'] if thorough else [])
  wplans = ['sws', 'qws', 'sqw', 'qqw'] + (['swqws', 'qwqwq', 'ssqww', 'qsw'] if thorough else [])
  nc = 3 if not thorough else 4
  BOUNDS[tier] = dict(messages="up to 3 (8, 10, 12 symbolic bytes)", socket_calls_scripted=nc, outcome_per_call="accept k of n (k symbolic) | EAGAIN | fatal",
                      interleavings=dict(controller=cplans, ioworker=wplans), PIPE_BUF=8)
  scripts = [[5], ['again'], [5, 2], [5, 'again', 3], [3, 'all', 4]]
  tcases = [dict(script=sc, nmsgs=3, bound=(2 if thorough else 1)) for sc in scripts] + ([dict(script=[5], nmsgs=4, bound=2)] if thorough else [])
  BOUNDS[tier]['threads'] = dict(socket_scripts=scripts, messages=3, preemptions=2 if thorough else 1, granularity='source statements of Connection.send / DeferredSender.send/run/_sliceup/kill')
  sh = [dict(sizes=[9000], script=[]), dict(sizes=[8192], script=[]), dict(sizes=[5000, 5000, 5024], script=[]), dict(sizes=[20000], script=[8192, 'again', 8192]),
        dict(sizes=[9000], script=[3000, 'again', 100]), dict(sizes=[36], script=[])]
  return [
    Obligation('O6_connecting', h_connecting, [dict(nmsgs=n, script=sc, how=h) for n, sc, h in ((2, [], 'send'), (2, [3, 'again', 4], 'mixed'), (1, [], 'mixed'), (3, [1], 'send'))], witnesses=('done',),
               max_decisions=20000, desc='data queued while the non-blocking connect is in progress is written, in order, once the connection is up'),
    Obligation('O5_shutdown', h_shutdown, sh, witnesses=('done',), max_decisions=20000,
               desc='IOWorker.shutdown() with more than one I/O-buffer of data queued: everything is written before the socket is shut down, once'),
    Obligation('O3_threads', h_threads, tcases, witnesses=('done', 'bound-reached'), max_decisions=20000, mode='int', path_seconds=120,
               desc='Connection.send (cooperative thread) against the real DeferredSender.run loop (its own thread), interleaved at statement granularity: stream preserved'),
    Obligation('O7_loop_iteration', h_loop_iteration, [dict(nq=6)], witnesses=('receive-side loss', 'alive'),
               desc='one round of the real I/O loop with a worker both readable and writable: no write after a fatal receive outcome'),
    Obligation('O4_two_connections', h_two, [dict(plan=p, ncalls=3) for p in (['abfb', 'abfab', 'bafa', 'abxfb', 'abxb', 'abeab'] + (['abffba', 'aabfb'] if thorough else []))], witnesses=('clean',),
               max_decisions=20000, desc='two connections behind the one DeferredSender, symbolic writable subsets per flush round: each connection keeps its own stream order'),
    Obligation('O1_controller', h_controller, [dict(nmsgs=p.count('s'), ncalls=nc, plan=p) for p in cplans], witnesses=('fatal', 'clean'),
               max_decisions=20000, desc='Connection.send + DeferredSender: accepted stream == queued stream; no write after fatal error; one ConnectionDown'),
    Obligation('O2_ioworker', h_ioworker, [dict(nmsgs=sum(p.count(c) for c in 'sq'), ncalls=nc, plan=p) for p in wplans], witnesses=('fatal', 'clean'),
               max_decisions=20000, desc='IOWorker/RecocoIOWorker send, send_fast, _do_send: accepted stream == queued stream; close exactly once'),
  ]
