"""C16 - address types parse, print, compare and mask as the standards say."""
from symx.run import Obligation

CLAIM = {
 'technique': "bounded symbolic execution of the real address classes with z3 (symx, QF_BV, char-level symbolic text): arithmetic oracles per path",
 'text': "IPv4/IPv6/Ethernet addresses are built from fully symbolic raw bytes; z3 proves on every path that printing yields the canonical text "
         "(dotted quad; xx:xx:xx:xx:xx:xx; RFC 5952 zero-run compression for every zero-run placement), that the text - and the alternative accepted "
         "forms - re-parse to an equal address, that ==, !=, <, <=, >, >= and hash are mutually consistent, that values are immutable, that network "
         "membership, CIDR/netmask parsing, prefix<->netmask conversion and classful inference equal arithmetic oracles for symbolic addresses and "
         "prefix lengths, that malformed text is rejected, and that datapath-id strings round-trip for every 64-bit id, including the 16-hex-digit, "
         "0x-prefixed and dashed 8-byte spellings str_to_dpid accepts."
         " Also: IPv6 CIDR text read leniently and strictly in both orders, mixed notation on request, binary input forms and immutability (O5_forms). More malformed texts (too few IPv6 groups, lone colons, non-octet EthAddr groups, text after white space), IPv6 (address, bits) tuples with host bits, IPAddr6(IPAddr) is IPv4-mapped.",
 'note': "Trusted: CPython, z3, symx proxies/shims incl. the char-level text model (numerals fork on their digit count) and the inet_aton/inet_ntoa "
         "models, the oracles in props/C16.py. Text inputs follow the listed grammars with symbolic numerals; free-form symbolic strings are outside.",
}
EXPLANATION = ("Real IPAddr/IPAddr6/EthAddr/_AddrBase, parse_cidr, infer_netmask, netmask_to_cidr, cidr_to_netmask, dpid_to_str/str_to_dpid executed "
               "on symbolic bytes, prefix lengths and char-level symbolic text; every path's assertions decided by z3.")
FUNCTIONS = ["pox.lib.addresses.IPAddr.*", "IPAddr6.*", "EthAddr.*", "_AddrBase comparisons", "parse_cidr", "infer_netmask", "netmask_to_cidr",
             "cidr_to_netmask", "pox.lib.util.dpid_to_str/str_to_dpid"]
BOUNDS = {}
OUTSIDE = ["free-form symbolic strings (only the listed grammars with symbolic numerals)", "OUI name lookup", "IPv6 text with more than the listed "
           "zero-run patterns (thorough: all 256)"]
ASSUMPTIONS = ["socket.inet_aton/inet_ntoa modelled for four decimal groups (symx.shims)"]


def num(bs):
  r = 0
  for b in bs: r = (r << 8) | b
  return r


class T:
  """text helpers that work on symbolic and concrete values"""
  def __init__(self, ctx):
    self.sym = ctx.sym
    if ctx.sym:
      from symx import sx
      self.sx = sx
  def str(self, x): return self.sx.str_(x) if self.sym else str(x)
  def fmt(self, f, args): return self.sx.mod(f, args) if self.sym else f % args
  def join(self, sep, items): return self.sx.join(sep, items) if self.sym else sep.join(items)
  def chars(self, codes):
    if self.sym:
      from symx.core import SymStr, SymBytes
      return SymStr(SymBytes(codes))
    return bytes(codes).decode('latin-1')


def dec_chars(ctx, v):
  """independent decimal rendering of a byte value (forks on its magnitude)"""
  if bool(v < 10): return [48 + v]
  if bool(v < 100): return [48 + v // 10, 48 + v % 10]
  return [48 + v // 100, 48 + (v // 10) % 10, 48 + v % 10]


def hexc(ctx, n, upper=False):
  return ctx.Ite(n < 10, 48 + n, (55 if upper else 87) + n)


def raises(f, *exc):
  try:
    f()
  except exc:
    return True
  return False


def h_ipv4(ctx, part):
  A = ctx.pox('pox.lib.addresses'); t = T(ctx)
  And, Or, Not, Iff, Implies = ctx.And, ctx.Or, ctx.Not, ctx.Iff, ctx.Implies
  b = ctx.bytes('a', 4); a = A.IPAddr(b); n = num(b)
  if part == 'numeric':
    ctx.check('raw', ctx.Eq(a.raw, b))
    ctx.check('toUnsigned host order', a.toUnsigned() == n)
    ctx.check('unsigned_h', a.unsigned_h == n)
    ctx.check('from int', A.IPAddr(n) == a)
    ctx.check('network-order int round trip', A.IPAddr(a.toUnsigned(networkOrder=True), networkOrder=True) == a)
    ctx.check('signed round trip', And(A.IPAddr(a.toSigned()) == a, A.IPAddr(a.toSignedN(), networkOrder=True) == a))
    ctx.check('signed range', And(a.toSigned() >= -2**31, a.toSigned() < 2**31, (a.toSigned() & 0xffffffff) == n))
    ctx.check('copy', A.IPAddr(a) == a)
    ctx.check('multicast', Iff(a.is_multicast, (b[0] & 0xf0) == 0xe0) if True else True)
    ctx.check('immutable', raises(lambda: setattr(a, '_value', 0), TypeError) and raises(lambda: setattr(a, 'x', 1), TypeError))
  elif part == 'compare':
    c = ctx.bytes('b', 4); o = A.IPAddr(c)
    same = ctx.Eq(b, c)
    eq = (a == o); ne = (a != o); lt = (a < o); gt = (a > o); le = (a <= o); ge = (a >= o)
    ctx.check('== is value equality', Iff(eq, same)); ctx.check('!= is its negation', Iff(ne, Not(eq)))
    ctx.check('trichotomy', And(Or(lt, eq, gt), Not(And(lt, eq)), Not(And(gt, eq)), Not(And(lt, gt))))
    ctx.check('<= and >=', And(Iff(le, Or(lt, eq)), Iff(ge, Or(gt, eq))))
    ctx.check('antisymmetry', Iff(lt, o > a))
    ctx.check('equal values hash equally', Implies(eq, a._value == o._value))
    ctx.check('compare with text operand', Iff(a == t.str(o), same) if part == 'comparetext' else True)
  elif part == 'text':
    s = a.toStr()
    ref = []
    for i, x in enumerate(b):
      if i: ref.append(46)
      ref += dec_chars(ctx, x)
    ctx.check('canonical dotted quad', s == t.chars(ref))
    ctx.check('re-parses equal', A.IPAddr(s) == a)
    ctx.check('bytes text form', A.IPAddr(s.encode('latin-1') if not ctx.sym else s.encode()) == a if len(s) != 4 else True)
  elif part == 'network':
    bits = ctx.int('bits', 0, 32)
    nb = ctx.bytes('n', 4); net = A.IPAddr(nb)
    mask = (~((1 << (32 - bits)) - 1)) & 0xffffffff
    ctx.check('inNetwork(tuple)', Iff(a.inNetwork((net, bits)), (n & mask) == (num(nb) & mask)))
    ctx.check('in_network alias', Iff(a.in_network((net, bits)), (n & mask) == (num(nb) & mask)))
    g = a.get_network(int(bits))
    ctx.check('get_network', And(g[0].toUnsigned() == (n & mask), g[1] == bits))
    cm = A.cidr_to_netmask(bits)
    ctx.check('cidr_to_netmask', cm.toUnsigned() == mask)
    ctx.check('netmask_to_cidr(cidr_to_netmask(p)) == p', A.netmask_to_cidr(cm) == bits)
    ctx.witness('net')
  elif part == 'netmask':
    m = n
    inv = (~m) & 0xffffffff
    contiguous = ((inv + 1) & inv) == 0
    try:
      r = A.netmask_to_cidr(a)
      ctx.check('netmask accepted only if contiguous', contiguous)
      ctx.check('netmask prefix length', And(r >= 0, r <= 32, m == ((~((1 << (32 - r)) - 1)) & 0xffffffff)))
      ctx.witness('contiguous')
    except RuntimeError:
      ctx.check('non-contiguous netmask rejected', Not(contiguous))
      ctx.witness('rejected')
  elif part == 'infer':
    r = A.infer_netmask(a)
    exp = ctx.Ite(n == 0, 0, ctx.Ite((n >> 31) == 0, 8, ctx.Ite((n >> 30) == 2, 16, ctx.Ite((n >> 29) == 6, 24, 32))))
    ctx.check('classful inference', r == exp)
  elif part in ('cidr', 'cidr_host', 'cidr_mask'):
    bits = ctx.int('bits', 0, 32)
    hostmask = (1 << (32 - bits)) - 1
    if part == 'cidr_mask':
      maskaddr = A.cidr_to_netmask(int(bits))
      txt = t.str(a) + '/' + t.str(maskaddr)
    else:
      txt = t.str(a) + '/' + t.str(bits)
    allow = part == 'cidr_host'
    try:
      r = A.parse_cidr(txt, infer=False, allow_host=allow)
      ctx.check('cidr: host bits zero unless allowed', Or(allow, (n & hostmask) == 0))
      ctx.check('cidr: address and prefix', And(r[0] == a, r[1] == bits))
      ctx.witness('parsed')
    except RuntimeError:
      ctx.check('cidr: rejected only for host bits', And(not allow, (n & hostmask) != 0))
      ctx.witness('rejected')
  elif part == 'malformed':
    k = int(ctx.int('kind', 0, 5))
    q = [t.str(x) for x in b]
    if k == 0: txt = t.join('.', q + [t.str(b[0])])          # five groups
    elif k == 1: txt = t.join('.', q[:2] + [''] + q[3:])     # empty group
    elif k == 2:
      big = ctx.int('big', 256, 999); txt = t.join('.', q[:3] + [t.str(big)])   # group > 255
    elif k == 3: txt = t.join('.', q[:3] + ['x' + q[3]])            # not a number
    elif k == 4: txt = t.join('.', q) + ' x'                  # something after the address
    else: txt = t.join('.', q) + chr(10) + '5.6.7.8'          # a second line
    ctx.check('malformed dotted quad rejected', raises(lambda: A.IPAddr(txt), Exception))
    for bad in ('10.0.0.0/8/junk', '10.0.0.0/8/', '10.0.0.0/255.0.0.0/8'):
      ctx.check('malformed CIDR text %s rejected' % bad, raises(lambda: A.parse_cidr(bad), Exception))


def h_eth(ctx, part):
  A = ctx.pox('pox.lib.addresses'); t = T(ctx)
  And, Or, Not, Iff, Implies = ctx.And, ctx.Or, ctx.Not, ctx.Iff, ctx.Implies
  b = ctx.bytes('m', 6); a = A.EthAddr(b)
  if part == 'basic':
    ctx.check('raw', ctx.Eq(a.raw, b)); ctx.check('toRaw', ctx.Eq(a.toRaw(), b))
    ctx.check('tuple', all(bool(x == y) for x, y in zip(a.toTuple(), b)) if not ctx.sym else And(*[x == y for x, y in zip(a.toTuple(), b)]))
    ctx.check('multicast bit', Iff(a.isMulticast(), (b[0] & 1) == 1)); ctx.check('local bit', Iff(a.isLocal(), (b[0] & 2) == 2))
    ctx.check('global', Iff(a.isGlobal(), (b[0] & 2) == 0))
    bf = And(b[0] == 1, b[1] == 0x80, b[2] == 0xc2, b[3] == 0, b[4] == 0, b[5] <= 0x0f)
    ctx.check('bridge filtered range', Iff(a.isBridgeFiltered(), bf))
    ctx.check('broadcast', Iff(a.is_broadcast, And(*[x == 255 for x in b])))
    ctx.check('copy / list / tuple constructors', And(A.EthAddr(a) == a, A.EthAddr(list(b)) == a, A.EthAddr(tuple(b)) == a))
    ctx.check('immutable', raises(lambda: setattr(a, '_value', b'123456'), TypeError))
  elif part == 'compare':
    c = ctx.bytes('o', 6); o = A.EthAddr(c); same = ctx.Eq(b, c)
    eq = (a == o); lt = (a < o); gt = (a > o)
    ctx.check('== is value equality', Iff(eq, same)); ctx.check('!=', Iff(a != o, Not(eq)))
    ctx.check('trichotomy', And(Or(lt, eq, gt), Not(And(lt, eq)), Not(And(gt, eq)), Not(And(lt, gt))))
    ctx.check('<= and >=', And(Iff(a <= o, Or(lt, eq)), Iff(a >= o, Or(gt, eq))))
    ctx.check('order is the byte-wise order', Iff(lt, num(b) < num(c)))
    ctx.check('compare with raw bytes operand', Iff(a == c, same))
  elif part == 'text':
    s = a.toStr()
    ref = []
    for i, x in enumerate(b):
      if i: ref.append(58)
      ref += [hexc(ctx, x >> 4), hexc(ctx, x & 15)]
    ctx.check('canonical text', s == t.chars(ref))
    ctx.check('re-parses equal', A.EthAddr(s) == a)
    ctx.check('str()', t.str(a) == t.chars(ref))
  elif part in ('dash', 'plain', 'upper', 'short'):
    if part == 'dash': txt = t.join('-', [t.fmt('%02x', (x,)) for x in b])
    elif part == 'plain': txt = t.join('', [t.fmt('%02x', (x,)) for x in b])
    elif part == 'upper': txt = t.join(':', [t.fmt('%02X', (x,)) for x in b])
    else: txt = t.join(':', [t.fmt('%x', (x,)) for x in b])
    ctx.check('accepted form parses to the same address', A.EthAddr(txt) == a)
  elif part == 'malformed':
    k = int(ctx.int('kind', 0, 5))
    g = [t.fmt('%02x', (x,)) for x in b]
    if k == 0: txt = t.join(':', g[:5])                       # five groups
    elif k == 1: txt = t.join(':', g[:5] + ['g' + t.fmt('%x', (b[5] & 15,))])   # bad hex digit
    elif k == 2: txt = t.join(':', g) + ':'                          # trailing separator
    elif k == 3: txt = t.join(':', [t.fmt('%x', (x,)) for x in b[:5]] + [t.fmt('%x', (ctx.int('big', 0x100, 0xfff),))])    # a group that is not an octet
    elif k == 4: txt = t.join(':', g[:5] + ['+' + t.fmt('%x', (b[5] & 15,))])                      # a sign where a digit belongs (two-digit form)
    else: txt = t.join(':', [t.fmt('%x', (x,)) for x in b[:5]] + [' ' + t.fmt('%x', (b[5] & 15,))])  # a blank inside a group (relaxed form)
    ctx.check('malformed text rejected', raises(lambda: A.EthAddr(txt), Exception))


def rfc5952(ctx, groups, zero):
  """reference: lower-case hex without leading zeros; longest run (>=2) of zero groups -> '::', first on tie"""
  best = (0, -1); i = 0
  while i < 8:
    if zero[i]:
      j = i
      while j < 8 and zero[j]: j += 1
      if j - i > best[0]: best = (j - i, i)
      i = j
    else: i += 1
  def grp(g, z):
    if z: return [48]
    out = []
    started = False
    for sh in (12, 8, 4, 0):
      n = (g >> sh) & 15
      if started or sh == 0 or bool(n != 0):
        started = True; out.append(hexc(ctx, n))
    return out
  def seq(idx):
    out = []
    for k, i in enumerate(idx):
      if k: out.append(58)
      out += grp(groups[i], zero[i])
    return out
  if best[0] >= 2:
    return seq(range(0, best[1])) + [58, 58] + seq(range(best[1] + best[0], 8))
  return seq(range(8))


def h_ipv6(ctx, part, pattern=0, free=(0,)):
  A = ctx.pox('pox.lib.addresses'); t = T(ctx)
  And, Or, Not, Iff = ctx.And, ctx.Or, ctx.Not, ctx.Iff
  if part == 'raw':
    b = ctx.bytes('a', 16); a = A.IPAddr6.from_raw(b)
    ctx.check('raw', ctx.Eq(a.raw, b)); ctx.check('num', a.num == num(b))
    ctx.check('copy', A.IPAddr6(a) == a)
    c = ctx.bytes('o', 16); o = A.IPAddr6.from_raw(c)
    ctx.check('== is value equality', Iff(a == o, ctx.Eq(b, c)))
    ctx.check('immutable', raises(lambda: setattr(a, '_value', b), TypeError))
    ctx.check('from bytearray', A.IPAddr6(bytearray(bytes(16))) == A.IPAddr6('::'))
  elif part == 'text':
    zero = [bool(pattern & (1 << i)) for i in range(8)]
    if all(zero[:5]) and not zero[5]: return ctx.witness('skipped-v4mapped-shape')    # ::ffff:a.b.c.d printing is a different grammar
    groups = []
    for i in range(8):
      if zero[i]: groups.append(0)
      elif i in free: groups.append(ctx.int('g%d' % i, 1, 0xffff))
      else: groups.append(ctx.int('g%d' % i, 0x1000, 0xffff))     # four digits: keeps the digit-count forks to the 'free' groups
    raw = []
    for g in groups: raw += [g >> 8, g & 255]
    from props import env
    a = A.IPAddr6.from_raw(env.tobytes(ctx, raw))
    if all(zero[:5]) and bool(groups[5] == 0xffff): return
    s = a.to_str()
    ctx.check('RFC 5952 canonical text', s == t.chars(rfc5952(ctx, groups, zero)))
    ctx.check('re-parses equal', A.IPAddr6(s) == a)
    full = a.to_str(zero_drop=False, section_drop=False)
    ctx.check('full form re-parses equal', A.IPAddr6(full) == a)
    ctx.witness('text')
  elif part == 'network':
    bits = pattern
    b = ctx.bytes('a', 16); a = A.IPAddr6.from_raw(b)
    nb = ctx.bytes('n', 16); net = A.IPAddr6.from_raw(nb)
    mask = (~((1 << (128 - bits)) - 1)) & ((1 << 128) - 1)
    # (address, bits) tuples may carry host bits (parse_cidr(..., allow_host=True) returns such): membership is decided under the mask, as for IPv4
    ctx.check('in_network', Iff(a.in_network((net, bits)), (num(b) & mask) == (num(nb) & mask)))
    if bool((num(nb) & ~mask) != 0): ctx.witness('tuple-host-bits')
    cm = A.IPAddr6.cidr_to_netmask(bits)
    ctx.check('cidr_to_netmask returns the netmask as an IPAddr6 (as documented)', isinstance(cm, A.IPAddr6))
    ctx.check('from_num is the inverse of num', isinstance(A.IPAddr6.from_num(num(b)), A.IPAddr6) and A.IPAddr6.from_num(num(b)) == a)
    ctx.check('cidr_to_netmask', A.IPAddr6.from_raw(cm).num == mask if isinstance(cm, bytes) else cm.num == mask)
    ctx.check('netmask_to_cidr', A.IPAddr6.netmask_to_cidr(A.IPAddr6.from_raw(cm) if isinstance(cm, bytes) else cm) == bits)
  elif part == 'mixed':
    # mixed notation on request (to_str(ipv4=True), documented for IPv4-compatible addresses): the first six groups print by the RFC 5952
    # rules - a zero run may end right before the dotted quad -, the last 32 bits as a dotted quad; the text re-parses to an equal address
    zero = [bool(pattern & (1 << i)) for i in range(6)]
    groups = [0 if zero[i] else ctx.int('g%d' % i, 0x1000, 0xffff) for i in range(6)]
    quad = [ctx.int('q%d' % i, 100, 255) for i in range(4)]         # three digits each: keeps the digit-count forks out
    raw = []
    for g in groups: raw += [g >> 8, g & 255]
    from props import env
    a = A.IPAddr6.from_raw(env.tobytes(ctx, raw + quad))
    sx = a.to_str(ipv4=True)
    # reference: RFC 5952 over eight groups with the last two forced non-zero (they are not part of the hex text), cut at the sixth group
    ref8 = rfc5952(ctx, groups + [1, 1], zero + [False, False])
    cut = len(ref8) - 3                                        # drop ":1:1"... the trailing "1:1" and keep the separator before it
    head = ref8[:cut]
    if all(zero[4:6]) : head = ref8[:len(ref8) - 3]           # "...::1:1" -> "...::"
    tail = []
    for i, q in enumerate(quad):
      if i: tail.append(46)
      tail += [48 + q // 100, 48 + (q // 10) % 10, 48 + q % 10]
    ctx.check('mixed notation text', sx == t.chars(head + tail))
    ctx.check('mixed notation re-parses equal', A.IPAddr6(sx) == a)
    ctx.witness('mixed')
  elif part == 'cidr6':
    # textual networks "addr/bits" and "addr/netmask": the low group (the whole host part for /112, part of it for shorter prefixes) is symbolic.
    # The lenient and the strict reading of the *same text* are asked for in both orders: an answer never depends on what was parsed before.
    bits, order = pattern, free
    groups = [0x2001, 0x0db8, 0x1234, 0xabcd, 0x1111, 0x2222, 0x3333, ctx.int('g7', 0, 0xffff)]
    if bits < 112: groups[6] = 0x3300 if bits >= 104 else 0
    raw = []
    for g in groups: raw += [g >> 8, g & 255]
    from props import env
    a = A.IPAddr6.from_raw(env.tobytes(ctx, raw))
    mask = (~((1 << (128 - bits)) - 1)) & ((1 << 128) - 1)
    hostzero = (a.num & ~mask & ((1 << 128) - 1)) == 0
    txt = a.to_str() + ('/%d' % bits if order != 'netmask' else '/' + A.IPAddr6.from_num(mask).to_str())
    def lenient():
      r = A.IPAddr6.parse_cidr(txt, allow_host=True)
      ctx.check('lenient parse_cidr: address and prefix length', r[0] == a and r[1] == bits)
    def strict():
      try: r = A.IPAddr6.parse_cidr(txt)
      except RuntimeError: r = None
      ctx.check('strict parse_cidr rejects a network with host bits, accepts one without', Iff(r is not None, hostzero))
      if r is not None: ctx.check('strict parse_cidr: address and prefix length', r[0] == a and r[1] == bits)
    if order == 'strict_first': strict(); lenient(); strict()
    else: lenient(); strict(); lenient()
    x = ctx.bytes('x', 16); xa = A.IPAddr6.from_raw(x)
    try: r = xa.in_network(txt)
    except RuntimeError: r = None
    ctx.check('in_network(text) rejects a network with host bits', Iff(r is not None, hostzero))
    if r is not None: ctx.check('in_network(text)', Iff(r, (num(x) & mask) == a.num))
    if bool(hostzero): ctx.witness('cidr6-network')
    else: ctx.witness('cidr6-host-bits')
  elif part == 'mapped':
    # an IPAddr is an accepted form too: the result is the IPv4-mapped address ::ffff:a.b.c.d (documented), which converts back
    from props import env
    v4b = ctx.bytes('v4', 4); x4 = A.IPAddr(v4b)
    m = A.IPAddr6(x4)
    ctx.check('IPAddr6(IPAddr) is the IPv4-mapped address', ctx.Eq(m.raw, env.tobytes(ctx, [0] * 10 + [0xff, 0xff] + list(v4b))))
    ctx.check('is_ipv4_mapped', m.is_ipv4_mapped is True or bool(m.is_ipv4_mapped))
    ctx.check('to_ipv4() gives the address back', m.to_ipv4() == x4)
  elif part == 'malformed':
    for txt in ('1::2::3', '1:2:3:4:5:6:7:8:9', '12345::1', 'g::1', '1.2.3.4', ':::', '1:2:3', '1:2:3:4:5:6:7', ':1:2:3:4:5:6:7', '1:2:3:4:5:6:7:', '1:2:3:4:5:1.2.3.4', ':1::2', '1::2:', '1_0::', '+1::', ' 1::', '1::-0', '::/64'):
      ctx.check('malformed %s rejected' % txt, raises(lambda: A.IPAddr6(txt), Exception))
    for bad in ('::/64/zz', '2001:db8::/32/'):
      ctx.check('malformed CIDR text %s rejected' % bad, raises(lambda: A.IPAddr6.parse_cidr(bad), Exception))


def h_forms(ctx, typ, form):
  """binary input forms and immutability: an address built from a mutable buffer (bytearray / list) or through the copy constructor
  equals, hashes and prints like the one built from the same bytes, exposes immutable bytes, and does not follow later changes of the buffer.
  The byte position and the byte value (boundary values) are solver-chosen selectors; the buffers are ordinary Python objects."""
  A = ctx.pox('pox.lib.addresses')
  n = {'eth': 6, 'ip4': 4, 'ip6': 16}[typ]
  cls = {'eth': A.EthAddr, 'ip4': A.IPAddr, 'ip6': A.IPAddr6}[typ]
  pos = int(ctx.int('pos', 0, n - 1))
  v0 = [0x00, 0x01, 0x7f, 0x80, 0xfe, 0xff, 0x2e, 0x3a][int(ctx.int('byte_choice', 0, 7))]
  vals = [(0x9e + 37 * i) & 0xff for i in range(n)]
  vals[pos] = v0
  ref = cls(bytes(vals)) if typ != 'ip6' else cls.from_raw(bytes(vals))
  text = (lambda a: a.toStr()) if typ != 'ip6' else (lambda a: a.to_str())
  raw_of = (lambda a: a.toRaw()) if typ != 'ip6' else (lambda a: a.raw)
  buf = None
  if form == 'bytearray': buf = bytearray(vals); a = cls(buf)
  elif form == 'bytearray_raw_kw': buf = bytearray(vals); a = cls(raw=buf)
  elif form == 'bytearray_raw_true': buf = bytearray(vals); a = cls(buf, raw=True)
  elif form == 'list': buf = list(vals); a = cls(buf)
  elif form == 'tuple': a = cls(tuple(vals))
  else: a = cls(ref)
  if form in ('bytearray', 'list', 'tuple'):
    # a buffer of another length is not an address of this type
    for m in (n - 3, n + 1, 17):
      seq = {'bytearray': bytearray, 'list': list, 'tuple': tuple}[form](vals[k % n] for k in range(m))
      ctx.check('a %s of %d elements is rejected' % (form, m), raises(lambda: cls(seq), Exception))
  ctx.check('equal to the address built from bytes', a == ref and not (a != ref))
  ctx.check('prints alike', text(a) == text(ref))
  def h(x):
    try: return hash(x)
    except TypeError: return None
  ctx.check('hashes alike', h(a) is not None and h(a) == h(ref))
  ctx.check('usable as a dictionary key', h(a) is not None and {ref: 1}.get(a) == 1)
  r = raw_of(a)
  ctx.check('raw value is immutable bytes', type(r) is bytes and r == bytes(vals))
  before = text(a)
  if buf is not None:
    buf[pos] = vals[pos] ^ 0xff
    buf[(pos + 1) % n] ^= 0x01
    ctx.check('unchanged when the source buffer is modified afterwards', a == ref and raw_of(a) == bytes(vals) and text(a) == before)
  ctx.check('attribute assignment rejected', raises(lambda: setattr(a, '_value', r), TypeError))
  # ... and there is no way round it through deletion (del a._value; a._value = other)
  def swap():
    try: delattr(a, '_value')
    except (TypeError, AttributeError): return False
    try: setattr(a, '_value', r)
    except (TypeError, AttributeError): pass
    return True
  ctx.check('attribute deletion rejected', swap() is False and a == ref and text(a) == before)
  ctx.witness('done')


def h_dpid(ctx, long_form, form=None):
  U = ctx.pox('pox.lib.util'); t = T(ctx)
  d = ctx.int('dpid', 0, (1 << 64) - 1)
  if form is not None:
    # other accepted spellings of a 64-bit id: 16 hex digits, with 0x prefix, eight dashed byte groups
    digs = [hexc(ctx, (d >> (4 * (15 - i))) & 15) for i in range(16)]
    if form == 'hex16': chars = digs
    elif form == '0x': chars = [48, 120] + digs
    elif form == '0X': chars = [48, 88] + digs
    else:
      chars = []
      for i in range(8):
        if i: chars.append(45)
        chars += digs[2 * i:2 * i + 2]
    ctx.check('str_to_dpid(%s text of d) == d' % form, U.str_to_dpid(t.chars(chars)) == d)
    ctx.witness('parsed-' + form)
    return
  s = U.dpid_to_str(d, alwaysLong=long_form)
  ctx.check('str_to_dpid(dpid_to_str(d)) == d', U.str_to_dpid(s) == d)
  lo = d & 0xffffffffffff
  ref = []
  for i in range(6):
    if i: ref.append(45)
    x = (lo >> (8 * (5 - i))) & 255
    ref += [hexc(ctx, x >> 4), hexc(ctx, x & 15)]
  hi = d >> 48
  if long_form or bool(hi != 0):
    ref.append(124)
    ref += dec16(ctx, hi)
  ctx.check('canonical dpid text', s == t.chars(ref))


def dec16(ctx, v):
  n = 1
  while not bool(v < 10 ** n): n += 1
  return [48 + (v // 10 ** i) % 10 for i in range(n - 1, -1, -1)]


def obligations(tier):
  thorough = tier != 'quick'
  v4 = [dict(part=p) for p in ('numeric', 'compare', 'text', 'network', 'netmask', 'infer', 'cidr', 'cidr_host', 'cidr_mask', 'malformed')]
  eth = [dict(part=p) for p in ('basic', 'compare', 'text', 'dash', 'plain', 'upper', 'short', 'malformed')]
  pats = list(range(256)) if thorough else [0x00, 0xff, 0x01, 0x80, 0x06, 0x66, 0x3c, 0xc3, 0x7e, 0x18, 0x1f, 0xf8, 0x55, 0x0f, 0x9c, 0x81, 0x42, 0x24, 0xe7, 0x33]
  v6 = [dict(part='raw'), dict(part='malformed'), dict(part='mapped')]
  for p in pats:
    nz = [i for i in range(8) if not (p >> i) & 1]
    v6.append(dict(part='text', pattern=p, free=tuple(nz[:2]) if not thorough else tuple(nz[:3])))
  for bits in (range(0, 129) if thorough else (0, 1, 7, 8, 9, 63, 64, 65, 96, 127, 128)):
    v6.append(dict(part='network', pattern=bits))
  for pat in ((0b111111, 0b001111, 0b110000, 0b000000, 0b011110, 0b110011, 0b111100) + ((0b000011, 0b100001, 0b010101, 0b011000) if thorough else ())):
    v6.append(dict(part='mixed', pattern=pat))
  for bits in ((112, 120, 104, 64, 128, 0) if thorough else (112, 120, 64)):
    for order in ('lenient_first', 'strict_first') + (('netmask',) if bits in (112, 64) else ()): v6.append(dict(part='cidr6', pattern=bits, free=order))
  BOUNDS[tier] = dict(ipv4="all 2^32 addresses, all 33 prefix lengths (symbolic), all 2^32 netmasks", ethernet="all 2^48 addresses; text forms xx:xx, xx-xx, 12 digits, upper case, short groups",
                      ipv6="raw: all addresses; text: %d zero-run patterns with symbolic non-zero groups (digit counts free on the first %d non-zero groups); "
                           "membership/masks: %s prefix lengths" % (len(pats), 3 if thorough else 2, 'all 129' if thorough else '11'),
                      dpid="all 64-bit ids; short and alwaysLong canonical forms; 16-hex-digit, 0x-prefixed and 8-group dashed spellings")
  return [
    Obligation('O1_ipv4', h_ipv4, v4, witnesses=('net', 'contiguous', 'rejected', 'parsed'), max_decisions=20000, desc='IPAddr numeric/text/compare/network/CIDR/netmask/inference'),
    Obligation('O2_eth', h_eth, eth, max_decisions=20000, desc='EthAddr raw/text forms/compare/flags/malformed'),
    Obligation('O3_ipv6', h_ipv6, v6, width=160, witnesses=('text', 'mixed', 'cidr6-network', 'cidr6-host-bits', 'tuple-host-bits'), max_decisions=20000, desc='IPAddr6 raw/RFC 5952 text/membership/masks/CIDR text (lenient and strict, both orders)/malformed'),
    Obligation('O5_forms', h_forms, [dict(typ=t, form=f) for t in ('eth', 'ip4', 'ip6') for f in ('bytearray', 'bytearray_raw_kw', 'bytearray_raw_true', 'list', 'tuple', 'copy')
                                     if not (t != 'eth' and f in ('list', 'tuple')) and not (t != 'ip6' and f.startswith('bytearray_raw'))], witnesses=('done',), max_decisions=20000, conc_cap=600,
               desc='binary input forms (bytearray / list / tuple / copy): equality, hash, text, immutable raw value, independence from the source buffer'),
    Obligation('O4_dpid', h_dpid, [dict(long_form=False), dict(long_form=True)] + [dict(long_form=False, form=f) for f in ('hex16', '0x', '0X', 'dash8')], max_decisions=20000,
               desc='dpid_to_str/str_to_dpid round trip, canonical text, and the plain-hex / 0x / dashed spellings of a 64-bit id'),
  ]
