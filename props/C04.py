"""C04 - flow table evolves as the OpenFlow 1.0 FLOW_MOD / timeout state machine."""
from symx.run import Obligation
from props import env

CLAIM = {
 'technique': "bounded symbolic execution of the real switch flow-mod/timeout code with z3 (symx, QF_BV) against a reference transition relation; one step from reachable pre-states",
 'text': "Pre-states are built through the real SoftwareSwitch (flow_mods decoded from their wire form, packets, sweeps) with symbolic priorities, "
         "match values, timeouts, flags and virtual-clock instants; then one operation (ADD/MODIFY/MODIFY_STRICT/DELETE/DELETE_STRICT/invalid "
         "command, packet arrival, or expiry sweep at a symbolic instant) is applied both to the switch and to a reference OpenFlow 1.0 table. On "
         "every path z3 proves equal entry sets (priority, match, timeouts, flags, actions, counters, clocks), sortedness by effective priority, and "
         "that the messages sent are exactly the specified flow_removed / error messages."
         " Also: scripted histories of 4-6 operations with symbolic arguments compared after every operation (O2_sequences), one of them with a tag-stripping entry (counters count received bytes). The quick tier includes two-entry pre-states of an exact-match and a wildcarded entry followed by strict commands.",
 'note': "Trusted: CPython, z3, symx proxies/shims, the reference table in props/C04.py. Integer-valued virtual clock (float rounding in "
         "duration fields is outside the claim). Matches are drawn from a 5-member family over in_port / dl_vlan / exact-TCP with symbolic values.",
}
EXPLANATION = ("Real SoftwareSwitch._rx_flow_mod/_flow_mod_*/rx_packet and FlowTable.* executed on symbolic flow_mod fields, packets and clock "
               "instants; reference = OpenFlow 1.0 sec. 4.6 transition relation; state equality and message assertions decided by z3 per path.")
FUNCTIONS = ["SoftwareSwitchBase._rx_flow_mod/_flow_mod_add/_flow_mod_modify(_strict)/_flow_mod_delete(_strict)/_handle_FlowTableModification/rx_packet/send_error",
             "FlowTable.add_entry/remove_matching_entries/matching_entries/remove_expired_entries/_remove_specific_entries/check_for_overlapping_entry/entry_for_packet",
             "TableEntry.from_flow_mod/is_matched_by/touch_packet/is_idle_timed_out/is_hard_timed_out/to_flow_removed/effective_priority",
             "ofp_match.matches_with_wildcards/__eq__", "ofp_flow_mod.pack/unpack (each command goes through its wire form)"]
BOUNDS = {}
OUTSIDE = ["tables with more than 3 entries", "emergency flows (OFPFF_EMERG)", "float clocks / duration_nsec", "match families beyond the listed one",
           "at the exact instant dt == timeout either outcome of the sweep is accepted (the statement only bounds expiry from below)"]
ASSUMPTIONS = ["virtual clock: time.time() in pox.openflow.flow_table and pox.datapaths.switch returns the harness's symbolic non-decreasing integer instant",
               "cookies are distinct concrete tags per ADD (used to pair implementation and reference entries)"]

KINDS = ['all', 'p', 'v', 'pv', 'x']
SRC = bytes([2, 0, 0, 0, 0, 1]); DST = bytes([2, 0, 0, 0, 0, 2])
IPS = bytes([10, 0, 0, 1]); IPD = bytes([10, 0, 0, 2])
SPORT, DPORT = 1000, 80
NONE_PORT = 0xffff


def be(v, n):
  return [(v >> (8 * (n - 1 - i))) & 0xff for i in range(n)]


def frame(ctx, vid):
  ip = [0x45, 0, 0, 40, 0, 0, 0, 0, 64, 6, 0, 0] + list(IPS) + list(IPD)
  tcp = be(SPORT, 2) + be(DPORT, 2) + [0] * 8 + [0x50, 2, 0, 0, 0, 0, 0, 0]
  return env.tobytes(ctx, list(DST) + list(SRC) + [0x81, 0x00] + be(vid & 0x0fff, 2) + [0x08, 0x00] + ip + tcp)


class M:
  """reference match from the family"""
  def __init__(self, kind, p, v): self.kind = kind; self.p = p; self.v = v
  @property
  def has_p(self): return self.kind in ('p', 'pv', 'x')
  @property
  def has_v(self): return self.kind in ('v', 'pv', 'x')
  @property
  def has_rest(self): return self.kind == 'x'


def build_match(ctx, of, addrs, m):
  mt = of.ofp_match()
  if m.has_p: mt.in_port = m.p
  if m.has_v: mt.dl_vlan = m.v
  if m.has_rest:
    mt.dl_src = addrs.EthAddr(SRC); mt.dl_dst = addrs.EthAddr(DST); mt.dl_vlan_pcp = 0; mt.dl_type = 0x0800
    mt.nw_tos = 0; mt.nw_proto = 6; mt.nw_src = addrs.IPAddr(IPS); mt.nw_dst = addrs.IPAddr(IPD); mt.tp_src = SPORT; mt.tp_dst = DPORT
  return mt


def subsumes(ctx, a, b):
  return ctx.And(ctx.Or(not a.has_p, ctx.And(b.has_p, a.p == b.p)), ctx.Or(not a.has_v, ctx.And(b.has_v, a.v == b.v)), (not a.has_rest) or b.has_rest)


def identical(ctx, a, b):
  return ctx.And(a.has_p == b.has_p, a.has_v == b.has_v, a.has_rest == b.has_rest, ctx.Or(not a.has_p, a.p == b.p), ctx.Or(not a.has_v, a.v == b.v))


def overlaps(ctx, a, b):
  return ctx.And(ctx.Or(not a.has_p, not b.has_p, a.p == b.p), ctx.Or(not a.has_v, not b.has_v, a.v == b.v))


def pkt_matches(ctx, a, p, v):
  return ctx.And(ctx.Or(not a.has_p, a.p == p), ctx.Or(not a.has_v, a.v == v))


class RefEntry:
  def __init__(self, **kw): self.__dict__.update(kw)
  @property
  def eff(self): return 65537 if self.m.kind == 'x' else self.prio


class _Tagged:
  def __init__(self, ctx, tag): self._c = ctx; self._t = tag
  def check(self, name, cond): self._c.check(self._t + name, cond)
  def __getattr__(self, n): return getattr(self._c, n)


class World:
  """the real switch and the reference table, stepped together"""
  def __init__(self, ctx):
    self.ctx = ctx
    env.get_core()
    self.of = ctx.pox('pox.openflow.libopenflow_01'); self.addrs = ctx.pox('pox.lib.addresses')
    self.swm = ctx.pox('pox.datapaths.switch'); self.ftm = ctx.pox('pox.openflow.flow_table'); self.pkt = ctx.pox('pox.lib.packet')
    self.clock = env.Clock(0)
    self.swm.time = self.clock; self.ftm.time = self.clock
    self.sw = self.swm.SoftwareSwitch(dpid=1, ports=4, miss_send_len=128, max_buffers=0)
    self.sent = []
    class Conn:
      def send(c, msg): self.sent.append(msg)
      def set_message_handler(c, h): pass
    self.sw.set_connection(Conn())
    self.ref = []
    self.nid = 0
    self.k = 0
    self.tag = ''
    self.strip = False

  def name(self, s):
    self.k += 1
    return "%s%d" % (s, self.k)

  def tick(self, maxdt=70000):
    self.clock.now = self.clock.now + self.ctx.int(self.name('dt'), 0, maxdt)

  def sym_match(self, kinds=KINDS):
    ctx = self.ctx
    ki = ctx.int(self.name('kind'), 0, len(kinds) - 1)
    kind = kinds[int(ki)]
    p = ctx.int(self.name('p'), 1, 5) if kind in ('p', 'pv', 'x') else None
    v = ctx.int(self.name('v'), 0, 4095) if kind in ('v', 'pv', 'x') else None
    return M(kind, p, v)

  # ---- operations --------------------------------------------------------------------------------
  def flow_mod(self, cmd, m, prio, idle, hard, flags, out_port, act_port, cookie):
    ctx = self.ctx; of = self.of
    fm = of.ofp_flow_mod(command=cmd, priority=prio, idle_timeout=idle, hard_timeout=hard, flags=flags, out_port=out_port, cookie=cookie)
    fm.match = build_match(ctx, of, self.addrs, m)
    # (with self.strip the entry first strips the 802.1Q tag: the forwarded frame is shorter than the received one - the counters count what was received)
    fm.actions = ([of.ofp_action_strip_vlan()] if self.strip else []) + [of.ofp_action_output(port=act_port)]
    fm.xid = 77
    wire = fm.pack()
    _, fm2 = of.ofp_flow_mod.unpack_new(wire)       # the command as the switch decodes it from the wire
    before = len(self.sent)
    self.sw.rx_message(self.sw._connection, fm2)
    new = self.sent[before:]
    self.ref_flow_mod(cmd, m, prio, idle, hard, flags, out_port, act_port, cookie, new)

  def ref_flow_mod(self, cmd, m, prio, idle, hard, flags, out_port, act_port, cookie, new):
    ctx = self.ctx; now = self.clock.now
    And, Or, Not = ctx.And, ctx.Or, ctx.Not
    exp_removed = []; exp_err = None
    def add():
      nonlocal exp_err
      e = RefEntry(m=m, prio=prio, idle=idle, hard=hard, flags=flags, created=now, touched=now, pkts=0, bytes=0, act=act_port, cookie=cookie)
      if bool((flags & 2) != 0):
        for r in self.ref:
          if bool(And(r.eff == e.eff, overlaps(ctx, r.m, m))):
            if not bool(Or(subsumes(ctx, r.m, m), subsumes(ctx, m, r.m))):
              self.tag = '[partial-overlap] '     # overlapping but neither match contains the other (see known_findings.json)
            exp_err = (3, 1); return      # FLOW_MOD_FAILED / OVERLAP
      if cmd == 0:
        self.ref = [r for r in self.ref if not bool(And(identical(ctx, r.m, m), r.prio == prio))]
      self.ref.append(e)
    if cmd == 0: add()
    elif cmd in (1, 2):
      hit = False
      for r in self.ref:
        c = And(identical(ctx, r.m, m), r.prio == prio) if cmd == 2 else subsumes(ctx, m, r.m)
        if bool(c): r.act = act_port; hit = True
      if not hit: add()
    elif cmd in (3, 4):
      keep = []
      for r in self.ref:
        c = And(identical(ctx, r.m, m), r.prio == prio) if cmd == 4 else subsumes(ctx, m, r.m)
        c = And(c, Or(out_port == NONE_PORT, r.act == out_port))
        if bool(c): exp_removed.append((r, 2))
        else: keep.append(r)
      self.ref = keep
    else:
      exp_err = (3, 4)    # FLOW_MOD_FAILED / BAD_COMMAND
    self.expect_messages(new, exp_removed, exp_err)

  def expect_messages(self, new, exp_removed, exp_err):
    ctx = _Tagged(self.ctx, self.tag); of = self.of; now = self.clock.now
    exp_fr = [(r, why) for r, why in exp_removed if bool((r.flags & 1) != 0)]
    frs = [m for m in new if isinstance(m, of.ofp_flow_removed)]
    errs = [m for m in new if isinstance(m, of.ofp_error)]
    ctx.check('only flow_removed/error messages are sent', len(frs) + len(errs) == len(new))
    ctx.check('one flow_removed per notifying removal', len(frs) == len(exp_fr))
    ctx.check('errors', len(errs) == (1 if exp_err else 0))
    if exp_err and errs:
      ctx.check('error type/code/xid', ctx.And(errs[0].type == exp_err[0], errs[0].code == exp_err[1], errs[0].xid == 77))
    if len(frs) == len(exp_fr):
      for fr in frs:
        rs = [(r, why) for r, why in exp_fr if r.cookie == fr.cookie]
        ctx.check('flow_removed names a removed entry', len(rs) == 1)
        if len(rs) != 1: continue
        r, why = rs[0]
        ok_reason = (fr.reason == why) if not isinstance(why, tuple) else ctx.Or(*[(fr.reason == w) for w in why])
        ctx.check('flow_removed fields', ctx.And(ok_reason, fr.priority == r.prio, fr.idle_timeout == r.idle, fr.packet_count == r.pkts,
                                                  fr.byte_count == r.bytes, fr.duration_sec == now - r.created))

  def packet(self, p, v):
    ctx = self.ctx
    raw = frame(ctx, v)
    eth = self.pkt.ethernet(raw)
    before = len(self.sent)
    outs = []
    h = self.sw.addListenerByName('DpPacketOut', lambda e: outs.append(e.port.port_no))
    self.sw.rx_packet(eth, p)
    self.sw.removeListener(h)
    # reference: highest effective priority matching entry is touched
    best = None
    for r in self.ref:
      if bool(pkt_matches(ctx, r.m, p, v)):
        if best is None or bool(r.eff > best.eff): best = r
    ties = [r for r in self.ref if best is not None and r is not best and bool(pkt_matches(ctx, r.m, p, v)) and bool(r.eff == best.eff)]
    if best is not None and not ties:
      best.pkts += 1; best.bytes += len(raw); best.touched = self.clock.now
      ctx.witness('packet-hit')
    elif best is not None:
      # several matching entries of equal priority: OpenFlow leaves the choice open; follow the switch's choice among the ties
      cands = [best] + ties
      hit = [r for r in cands if any(e.cookie == r.cookie and bool(e.packet_count == r.pkts + 1) for e in self.sw.table.entries)]
      ctx.check('exactly one of the tied entries was touched', len(hit) == 1)
      if hit: hit[0].pkts += 1; hit[0].bytes += len(raw); hit[0].touched = self.clock.now
    else:
      ctx.witness('packet-miss')
    ctx.check('no flow_removed/error on packet arrival', all(not isinstance(m, (self.of.ofp_flow_removed, self.of.ofp_error)) for m in self.sent[before:]))

  def sweep(self):
    ctx = self.ctx; now = self.clock.now
    before = len(self.sent)
    self.sw.table.remove_expired_entries()
    new = self.sent[before:]
    # tolerant reference (statement: "no earlier than its timeout, and at the first sweep after it")
    impl_ids = [e.cookie for e in self.sw.table.entries]
    removed = []; keep = []
    for r in self.ref:
      idle_due = ctx.And(r.idle > 0, now - r.touched > r.idle); hard_due = ctx.And(r.hard > 0, now - r.created > r.hard)
      idle_ok = ctx.And(r.idle > 0, now - r.touched >= r.idle); hard_ok = ctx.And(r.hard > 0, now - r.created >= r.hard)
      gone = r.cookie not in impl_ids
      if gone:
        ctx.check('not removed before a timeout elapsed', ctx.Or(idle_ok, hard_ok))
        why = tuple(w for w, c in ((0, idle_ok), (1, hard_ok)) if bool(c))
        removed.append((r, why))
        ctx.witness('expired')
      else:
        ctx.check('removed at the first sweep after a timeout', ctx.Not(ctx.Or(idle_due, hard_due)))
        keep.append(r)
    self.ref = keep
    self.expect_messages(new, removed, None)

  # ---- state comparison --------------------------------------------------------------------------
  def compare(self, tag):
    ctx = _Tagged(self.ctx, self.tag)
    tbl = self.sw.table.entries
    ctx.check(tag + ': number of entries', len(tbl) == len(self.ref))
    srt = True
    for a, b in zip(tbl, tbl[1:]): srt = ctx.And(srt, a.effective_priority >= b.effective_priority)
    ctx.check(tag + ': sorted by effective priority', srt)
    for r in self.ref:
      es = [e for e in tbl if e.cookie == r.cookie]
      ctx.check(tag + ': entry present once', len(es) == 1)
      if len(es) != 1: continue
      e = es[0]
      mm = build_match(ctx, self.of, self.addrs, r.m)
      ctx.check(tag + ': entry fields', ctx.And(e.priority == r.prio, e.idle_timeout == r.idle, e.hard_timeout == r.hard, e.flags == r.flags,
                                                e.created == r.created, e.last_touched == r.touched, e.packet_count == r.pkts,
                                                e.byte_count == r.bytes, len(e.actions) == (2 if self.strip else 1), e.actions[-1].port == r.act))
      ctx.check(tag + ': entry match', e.match == mm)


def sym_add(w, flags_mask=1, kinds=KINDS):
  ctx = w.ctx
  w.nid += 1
  m = w.sym_match(kinds)
  w.flow_mod(0, m, ctx.int(w.name('prio'), 0, 0xffff), ctx.int(w.name('idle'), 0, 0xffff), ctx.int(w.name('hard'), 0, 0xffff),
             ctx.int(w.name('flags'), 0, 3) & flags_mask, NONE_PORT, ctx.int(w.name('act'), 1, 4), 1000 + w.nid)


def h_step(ctx, npre, op, kinds=None):
  kinds = kinds or KINDS
  w = World(ctx)
  w.clock.now = ctx.int('t0', 0, 1000)
  for i in range(npre):
    sym_add(w, kinds=kinds); w.compare('pre%d' % i); w.tick()
  if npre and op in ('sweep', 'delete', 'delete_strict', 'modify'):
    # let traffic refresh the idle clock / counters of one entry before the step
    w.packet(ctx.int('pp', 1, 4), ctx.int('pv', 0, 4095)); w.tick()
  if op == 'packet':
    w.packet(ctx.int('qp', 1, 4), ctx.int('qv', 0, 4095))
  elif op == 'sweep':
    w.sweep()
  else:
    cmd = dict(add=0, modify=1, modify_strict=2, delete=3, delete_strict=4, badcmd=5)[op]
    w.nid += 1
    m = w.sym_match(kinds)
    # the out_port filter only has a meaning for DELETE / DELETE_STRICT; OpenFlow 1.0 says it is ignored by ADD, MODIFY and MODIFY_STRICT
    out_port = NONE_PORT
    if op in ('delete', 'delete_strict', 'modify', 'modify_strict', 'add'):
      out_port = ctx.Ite(ctx.bool('filter'), ctx.int('outp', 1, 4), NONE_PORT)
    flags = ctx.int('oflags', 0, 3) if op in ('add', 'modify', 'modify_strict') else 0
    w.flow_mod(cmd, m, ctx.int('oprio', 0, 0xffff), ctx.int('oidle', 0, 0xffff), ctx.int('ohard', 0, 0xffff), flags, out_port,
               ctx.int('oact', 1, 4), 1000 + w.nid)
  w.compare('post')
  ctx.witness('step')


def h_seq(ctx, script, kinds, strip=False):
  """longer histories: a scripted sequence of operation *kinds*, every argument symbolic (matches from a reduced family, priorities, timeouts,
  flags, out_port filters, packet port/vlan, time steps); the real switch and the reference table are stepped together and compared after
  every operation"""
  w = World(ctx); w.strip = strip
  w.clock.now = ctx.int('t0', 0, 1000)
  for i, op in enumerate(script):
    if op == 'tick': w.tick(); continue
    if op == 'packet': w.packet(ctx.int(w.name('qp'), 1, 4), ctx.int(w.name('qv'), 0, 4095))
    elif op == 'sweep': w.sweep()
    else:
      cmd = dict(add=0, modify=1, modify_strict=2, delete=3, delete_strict=4)[op]
      w.nid += 1
      m = w.sym_match(kinds)
      out_port = ctx.Ite(ctx.bool(w.name('filter')), ctx.int(w.name('outp'), 1, 4), NONE_PORT) if op in ('delete', 'delete_strict') else NONE_PORT
      flags = (ctx.int(w.name('flags'), 0, 3) & 1) if op == 'add' else 0
      w.flow_mod(cmd, m, ctx.int(w.name('prio'), 0, 0xffff), ctx.int(w.name('idle'), 0, 0xffff), ctx.int(w.name('hard'), 0, 0xffff), flags, out_port,
                 ctx.int(w.name('act'), 1, 4), 1000 + w.nid)
    w.compare('after op %d (%s)' % (i, op))
  ctx.witness('step')


def obligations(tier):
  thorough = tier != 'quick'
  ops = ['add', 'modify', 'modify_strict', 'delete', 'delete_strict', 'badcmd', 'packet', 'sweep']
  cases = []
  for op in ops:
    for npre in [0, 1]:
      if npre == 0 and op in ('packet', 'sweep', 'delete', 'delete_strict'): continue
      cases.append(dict(npre=npre, op=op))
  if not thorough:
    # two-entry pre-states over reduced match families keep the quick tier short
    for op in ('add', 'packet'):
      cases.append(dict(npre=2, op=op, kinds=['all', 'p']))
    cases.append(dict(npre=2, op='delete', kinds=['p']))
    cases.append(dict(npre=2, op='sweep', kinds=['p']))          # two entries can expire in the same sweep
    # an exact-match entry (it ranks first whatever its priority number) next to a wildcarded one, then a strict command aimed at either
    for op in ('add', 'delete_strict'): cases.append(dict(npre=2, op=op, kinds=['x', 'p']))
  if thorough:
    for op in ops:
      if op == 'badcmd': continue
      cases.append(dict(npre=2, op=op, kinds=(['all', 'p', 'x'] if op != 'sweep' else ['all', 'p'])))
  BOUNDS[tier] = dict(pre_state_entries="0..%d (built by real ADD flow_mods, packets)" % (2 if True else 1), operations=ops,
                      fields="priority/idle/hard 16 bit, flags {SEND_FLOW_REM, CHECK_OVERLAP}, match in_port 1..5 (switch has ports 1..4; packets arrive on 1..4), vlan 0..4095, clock steps 0..70000",
                      match_family=KINDS)
  T = 'tick'
  seqs = [dict(script=['add', T, 'packet', T, 'sweep', T, 'packet', T, 'sweep'], kinds=['p'], strip=True),           # traffic between two sweeps: only the idle clock is refreshed
          dict(script=['add', T, 'sweep', T, 'add', T, 'sweep'], kinds=['p'])]                           # an entry re-installed after it expired
  if thorough: seqs += [dict(script=['add', T, 'add', T, 'delete', T, 'sweep'], kinds=['all', 'p']),
                        dict(script=['add', 'modify', T, 'packet', 'delete_strict'], kinds=['all', 'p']),
                        dict(script=['add', T, 'add', T, 'packet', T, 'sweep', 'modify_strict', T, 'sweep'], kinds=['all', 'p']),
                        dict(script=['add', 'add', 'add', T, 'delete', T, 'packet', 'sweep'], kinds=['all', 'p'])]
  return [Obligation('O2_sequences', h_seq, seqs, witnesses=('step', 'packet-hit', 'expired'), max_decisions=20000,
                     desc='scripted histories of 4-6 operations with symbolic arguments: state and messages == reference after every operation'),
          Obligation('O1_step', h_step, cases, witnesses=('step', 'packet-hit', 'packet-miss', 'expired'), max_decisions=20000,
                     desc='one operation from a reachable pre-state: switch state and messages == reference OpenFlow 1.0 table')]
