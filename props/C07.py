"""C07 - hand-off between threads and the scheduler; cooperative locks exclude."""
import io, sys
from symx.run import Obligation
from props import env
from props.C06 import make_sched, drive

CLAIM = {
 'technique': "bounded symbolic execution of the real recoco Lock, callLater, schedule, Synchronizer, select-hub and Scheduler.run code with z3 (symx): solver-chosen "
              "schedules - operation interleavings, and real threads stepped one source statement at a time under a preemption bound",
 'text': "(a) 2-3 tasks whose programs are sequences of blocking / non-blocking acquire, release and plain yields on 1-2 real Lock objects run on the real "
         "scheduler: at most one holder at any time, a release with waiters makes exactly one of them the holder and runnable, no waiter stays blocked "
         "while the lock is free, releasing an unheld lock raises in the releasing task only. (b) Scheduler.callLater / CallLaterTask and "
         "Scheduler.schedule / ScheduleTask with every foreign call treated as atomic and interleaved in a symbolic order with cycle() steps: every "
         "submitted callable runs exactly once, in submission order, from inside the scheduler; a task woken several times before it runs is queued once. "
         "(c) the threaded select hub's idle()/break_idle() at operation granularity for all sequences up to length 3 (thorough 4). "
         "(d) O4_preempt: foreign threads, the scheduler thread (real Scheduler.run) and in threaded mode the hub thread (real _threadProc) are real threads "
         "that a controller runs ONE SOURCE STATEMENT of recoco.py at a time; which thread runs next is a solver variable, so every interleaving with at most "
         "1 (thorough 2) preemptions of 12 scenarios x {inline, threaded hub} is explored (callLater from 1-3 threads incl. the racing creation of the "
         "CallLaterTask, schedule() of one sleeping task from two threads and from a task, `with scheduler.synchronized()` incl. nesting against a stepping "
         "task and concurrent callLater): every callable runs exactly once, on the scheduler thread, in per-thread order; the woken task is never queued twice "
         "nor lost; nothing cooperative runs inside a synchronized section; no deadlock; and no wake-up is left to the polling timeout (a timed wait expires "
         "only when no thread can run, which is a violation while work is pending)."
         " Also (O5_pinger): the real PipePinger over a model pipe with a symbolic number of piled-up pings; in O4 a timed Lock.acquire may expire at any scheduling point and the scheduler thread must be parked while a foreign thread is inside a synchronized section.",
 'note': "Granularity is the source statement (sys.settrace line events, one point per statement), not the bytecode: races inside one statement (e.g. `x += 1`) "
         "are outside the claim, as are schedules with more preemptions than the bound. threading.Lock/Event, select and the pinger are models with their "
         "documented semantics (props/ilv.py); statements of SelectHub._select that touch only locals are not scheduling points (they commute). "
         "Trusted: CPython, z3, symx proxies, those models.",
}
EXPLANATION = ("Real Lock._do_acquire/_do_release through Scheduler.cycle, Scheduler.callLater + CallLaterTask.run, Scheduler.schedule + ScheduleTask.run, "
               "Synchronizer/SyncTask, SelectHub.idle/break_idle/_select/_threadProc and Scheduler.run executed over solver-enumerated operation orders and, "
               "as real threads under a controlled scheduler, over all statement-level interleavings within the preemption bound; assertions on every path.")
FUNCTIONS = ["pox.lib.recoco.recoco.Lock.acquire/release/_do_acquire/_do_release", "Scheduler.callLater/schedule/fast_schedule/cycle/run/synchronized", "CallLaterTask.callLater/run",
             "ScheduleTask.run", "Synchronizer.__enter__/__exit__, SyncTask.run", "SelectHub.__init__(threaded)/idle/break_idle/_return/_select/_threadProc/registerSelect/_cycle"]
BOUNDS = {}
OUTSIDE = ["interleavings below statement granularity (inside one source statement) and schedules with more preemptions than the bound",
           "more than 3 foreign threads / 3 tasks / 2 locks", "CallBlocking / BlockingTask worker threads", "the epoll select variant"]
ASSUMPTIONS = ["threading.Lock / Event / select.select / the pinger behave as their models in props/ilv.py (documented semantics); C-level operations (deque.append, "
               "`x in deque`, Queue.put/get) are atomic", "O2: each foreign-thread call is atomic with respect to cycle(), except the modelled preemption inside the wake-up ping (O4 removes this assumption within its bound)"]

OPS = ['acq', 'try', 'rel', 'zero']


def h_locks(ctx, progs, nlocks):
  R, s, clock, fs = make_sched(ctx, budget=0)
  locks = [R.Lock() for _ in range(nlocks)]
  holders = {i: None for i in range(nlocks)}
  events = []
  bad = []
  out = sys.stdout; sys.stdout = io.StringIO(); err = sys.stderr; sys.stderr = io.StringIO()
  def body(ti, prog):
    def gen():
      for (op, li) in prog:
        if op == 'acq':
          got = yield locks[li].acquire()
          events.append((ti, 'acq', li, got))
          if got is True:
            if holders[li] is not None: bad.append('two holders of lock %d: %r and %d' % (li, holders[li], ti))
            holders[li] = ti
        elif op == 'try':
          got = yield locks[li].acquire(False)
          events.append((ti, 'try', li, got))
          if got is True:
            if holders[li] is not None: bad.append('non-blocking acquire succeeded while lock %d was held by %r' % (li, holders[li]))
            holders[li] = ti
          elif holders[li] is None: bad.append('non-blocking acquire failed although lock %d was free' % li)
        elif op == 'rel':
          mine = holders[li] == ti
          if mine: holders[li] = None
          events.append((ti, 'rel', li, mine))
          yield locks[li].release()
          events.append((ti, 'released', li, mine))
        else:
          yield 0
      events.append((ti, 'end', None, None))
    return gen
  try:
    # the order in which the tasks become runnable is a solver-chosen permutation (rotation + reversal)
    idx = list(range(len(progs)))
    rot = int(ctx.int('rot', 0, len(progs) - 1))
    idx = idx[rot:] + idx[:rot]
    if ctx.bool('rev'): idx.reverse()
    for ti in idx:
      R.Task(target=body(ti, progs[ti])).start(s)
    done = drive(s, 200, fs)
  finally:
    sys.stdout = out; sys.stderr = err
  ctx.check('quiescent', done)
  ctx.check('mutual exclusion and non-blocking semantics', not bad)
  if bad and not ctx.sym: print(bad)
  for li, lk in enumerate(locks):
    if not lk._locked: ctx.check('lock %d free => nobody waits' % li, len(lk._waiting) == 0)
    else: ctx.check('lock %d holder bookkeeping' % li, holders[li] is not None)
  # a release of a lock the task does not hold and nobody holds raises -> that task never reaches 'released'
  for k, (ti, what, li, mine) in enumerate(events):
    if what == 'rel' and not mine and not any(e[0] == ti and e[1] == 'released' and e[2] == li for e in events[k + 1:k + 2]):
      ctx.witness('unheld-release-raised')
  ended = {e[0] for e in events if e[1] == 'end'}
  for ti, prog in enumerate(progs):
    blocked_forever = ti not in ended
    if blocked_forever:
      # legitimate only if it waits for a lock that is still held, or it raised on an unheld release
      waits = [li for li, lk in enumerate(locks) if any(getattr(t, 'name', None) is not None and t in lk._waiting for t in list(lk._waiting))]
      raised = any(e[0] == ti and e[1] == 'rel' and not e[3] for e in events) and not any(e[0] == ti and e[1] == 'released' and not e[3] for e in events)
      held_wait = any(lk._locked and len(lk._waiting) > 0 for lk in locks)
      ctx.check('task %d unfinished only because it waits on a held lock or raised' % ti, raised or held_wait)
  ctx.witness('done')


def h_calllater(ctx, plan):
  """plan letters: c callLater(next function; symbolic: raises or not), y one scheduler step (cycle or idle), w schedule(wake) the sleeper task"""
  R, s, clock, fs = make_sched(ctx, budget=0)
  ran = []; inside = [False]
  out = sys.stdout; sys.stdout = io.StringIO(); err = sys.stderr; sys.stderr = io.StringIO()
  woken = []
  def sleeper():
    while True:
      yield False
      woken.append(len(ran))
  try:
    st = R.Task(target=sleeper); st.start(s); drive(s, 5, fs)
    n = 0; wakes = 0
    real_cycle = s.cycle
    def cyc():
      inside[0] = True
      try: return real_cycle()
      finally: inside[0] = False
    s.cycle = cyc
    for i, op in enumerate(plan):
      if op in 'cC':
        k = n; n += 1
        boom = ctx.bool('raises%d' % k)
        def f(k=k, boom=boom):
          ran.append((k, inside[0]))
          if boom: raise RuntimeError("callable failed")
        if op == 'C':
          # the wake-up ping is a system call (a write to a pipe): the calling thread can be descheduled inside it, and the scheduler
          # thread then runs to quiescence before callLater() continues.  Interleaving at this I/O boundary is modelled, finer ones are not.
          from props.C06 import Pinger
          Pinger.after_ping[0] = lambda: drive(s, 20, fs)
          try: s.callLater(f)
          finally: Pinger.after_ping[0] = None
        else:
          s.callLater(f)
        ctx.check('call %d: wake-up pinger pinged when work is queued' % k, s._callLaterTask._pinger.flag or len(s._ready) > 0 or (k, True) in ran)
      elif op == 'w':
        wakes += 1
        s.schedule(st)
        ctx.check('wake %d: target queued at most once' % wakes, sum(1 for t in s._ready if t is st) <= 1)
      else:
        drive(s, 1, fs)
        ctx.check('step %d: target queued at most once' % i, sum(1 for t in s._ready if t is st) <= 1)
    drive(s, 60, fs)
  finally:
    sys.stdout = out; sys.stderr = err
  ctx.check('every submitted callable ran exactly once, in submission order', [k for k, _ in ran] == list(range(n)))
  ctx.check('callables run from inside the scheduler', all(ins for _, ins in ran))
  if wakes:
    ctx.check('a woken task is never lost', len(woken) >= 1)
    ctx.check('wakes are not multiplied', len(woken) <= wakes)
  ctx.witness('done')


class _NoThread:
  """stands in for threading.Thread while the threaded SelectHub is built: the select thread is never started"""
  daemon = False
  def __init__(self, *a, **k): pass
  def start(self): pass


class _Event:
  """threading.Event with its documented semantics; wait() on a clear flag is recorded as a blocking wait (up to the timeout)"""
  def __init__(self): self.flag = False; self.blocked = 0; self.timeouts = []; self.wakes = 0
  def set(self): self.flag = True; self.wakes += 1
  def clear(self): self.flag = False
  def is_set(self): return self.flag
  isSet = is_set
  def wait(self, timeout=None):
    if not self.flag:
      self.blocked += 1; self.timeouts.append(timeout)
    return self.flag


def h_idle(ctx, plan):
  """threaded select hub at operation granularity: plan letters  B break_idle(), W schedule(task) from a foreign thread, C callLater(f),
  T the hub thread hands a finished wait back (SelectHub._return), I the scheduler finds nothing ready and calls idle().
  A wake-up that happened since the previous idle() must make the next idle() return without blocking (no reliance on the polling timeout)."""
  R, s, clock, fs = make_sched(ctx, budget=0)
  real_thread = R.Thread
  R.Thread = _NoThread
  try:
    hub = R.SelectHub(s, use_epoll=False, threaded=True)
  finally:
    R.Thread = real_thread
  ev = _Event(); hub._event = ev
  s._selectHub = hub
  seen = 0             # wake-ups (Event.set calls) that an earlier idle() has already consumed
  ran = []
  def mk(i):
    def gen():
      ran.append(i)
      yield False      # then stays descheduled
    return R.Task(target=gen)
  for i, ch in enumerate(plan):
    if ch == 'B': hub.break_idle()
    elif ch == 'W':
      s.schedule(mk(i))
      ctx.check('schedule() from outside wakes the idle scheduler', ev.flag)
    elif ch == 'C':
      s.callLater(lambda i=i: ran.append(('cb', i)))
      ctx.check('callLater() wakes the idle scheduler', ev.flag)
    elif ch == 'T':
      t = mk(i); hub._return(t, None) if hasattr(hub, '_return') else s.fast_schedule(t)
      ctx.check('a wait handed back by the hub wakes the idle scheduler', ev.flag)
    elif ch == 'I':
      before = ev.blocked
      pending = ev.wakes > seen
      hub.idle()
      seen = ev.wakes
      if pending:
        ctx.check('idle() after a wake-up returns without blocking', ev.blocked == before)
      else:
        ctx.check('idle() with nothing pending blocks once, for at most CYCLE_MAXIMUM', ev.blocked == before + 1 and ev.timeouts[-1] is not None and ev.timeouts[-1] <= R.CYCLE_MAXIMUM)
      while len(s._ready): s.cycle()          # the scheduler then runs whatever became ready
  ctx.witness('done')



# ---- O4: real threads interleaved at source-line granularity ----------------------------------------------------------
SCENARIOS = {
  # name: (foreign thread programs, cooperative extras).  Program letters: c callLater(next callable), w schedule(sleeper task T),
  # S..s enter / leave `with scheduler.synchronized()` (two explicit scheduling points inside), N..n the same, nested twice
  'call2+1':   (['cc', 'c'], ''),
  'call1+1':   (['c', 'c'], ''),
  'wake1+1':   (['w', 'w'], 'T'),
  'wake2':     (['ww'], 'T'),
  'call+wake': (['cw', 'c'], 'T'),
  'wake+coop': (['w'], 'TW'),
  'wake2+coop': (['ww'], 'TW'),
  # a foreign wake that coincides with a cooperative one (a task started at the same moment wakes T in its first slice, before the foreign
  # thread's ScheduleTask gets its turn), the foreign thread waits until T has run ('r'), then wakes it again: none is lost
  'wake-coop-wake': (['wrw'], 'TV'),          # W: a cooperative task wakes T as well (scheduler-thread path of schedule())
  'sync':      (['Ss'], 'K'),          # K: a cooperative task that keeps stepping
  'sync+call': (['Ss', 'c'], 'K'),
  'sync2':     (['Ss', 'Ss'], 'K'),
  'nested':    (['Nn'], 'K'),
  'nested-exc': (['X'], 'K'),          # X: an inner nested section is left by an exception which the outer section handles and then goes on working
  'call+coopcall': (['c'], 'C'),       # C: a cooperative task submits a callable too
  'call3':     (['c', 'c', 'c'], ''),
}


def h_preempt(ctx, scenario, hub, bound, nondefault=False):
  """Foreign threads, the scheduler thread (real Scheduler.run) and, in threaded mode, the select-hub thread (real _threadProc)
  are real threads run one source line of recoco.py at a time; the interleaving is chosen by solver variables, all interleavings
  with <= bound preemptions are explored.  Lock/Event/select/pinger are models (props/ilv.py)."""
  from props import ilv
  progs, extras = SCENARIOS[scenario]
  env.quiet()
  R = ctx.pox('pox.lib.recoco.recoco'); U = ctx.pox('pox.lib.util')
  clock = env.Clock(1000)
  saved = (R.threading, R.Thread, getattr(R, 'select'), R.time, U.makePinger)
  import gc, linecache, re
  gc.collect(); gc.disable()      # a generator of an earlier path collected inside a traced thread would add scheduling points
  shared = re.compile(r'_pinger|_incoming|_return|_select_func|pongAll|_scheduler|_hasQuit')
  def line_filter(frame, st):
    # SelectHub._select works on locals and on the task table that only the selecting thread touches: only its lines that
    # reach shared objects are scheduling points (local steps commute with every step of another thread)
    if frame.f_code.co_name != '_select': return True
    return shared.search(ctl.stmt_text(frame.f_code.co_filename, st)) is not None
  ctl = ilv.Controller(ctx, [R.__file__], bound, line_filter=line_filter)
  tm = ilv.ThreadingModule(ctl)
  out = sys.stdout; sys.stdout = io.StringIO(); err = sys.stderr; sys.stderr = io.StringIO()
  problems = []
  try:
    R.time = clock; R.select = ilv.MSelect(ctl, clock)
    U.makePinger = lambda: ilv.MPinger(); R.pox.lib.util.makePinger = U.makePinger
    R.threading = tm; R.Thread = tm.Thread
    if nondefault:
      # the scheduler under test is not the process-wide default one (another, idle scheduler is): schedule()/callLater()/synchronized() on it must
      # still hand over to *its* thread
      other = R.Scheduler(isDefaultScheduler=True, startInThread=False, threaded_selecthub=False)
      R.defaultScheduler = other
      s = R.Scheduler(isDefaultScheduler=False, startInThread=False, threaded_selecthub=(hub == 'threaded'))
    else:
      s = R.Scheduler(isDefaultScheduler=True, startInThread=False, threaded_selecthub=(hub == 'threaded'))
      R.defaultScheduler = s
    s._random = lambda: 0
    tick = [0]
    def now():
      tick[0] += 1; return tick[0]
    ran = []                 # (k, thread, inside critical section?)
    submitted = {}           # k -> submitting thread name, recorded when callLater() has returned
    order = {}               # thread name -> [k...] in submission order
    insec = [0]
    wakes = []               # [start tick, returned?]
    truns = []               # ticks at which the sleeper T started a run
    klog = []
    ncall = [0]
    def f(k):
      ran.append((k, tm.current_thread(), insec[0]))
    def submit(who):
      k = ncall[0]; ncall[0] += 1
      order.setdefault(who, []).append(k)
      s.callLater(f, k)
      submitted[k] = who
    T = None
    if 'T' in extras:
      def sleeper():
        while True:
          yield False
          truns.append(now())
      T = R.Task(target=sleeper); T.start(s, fast=True)
    def wake():
      w = [now(), False]; wakes.append(w)
      s.schedule(T)
      w[1] = True
    if 'K' in extras:
      def stepper():
        for i in range(3):
          klog.append((i, insec[0]))
          yield 0
      R.Task(target=stepper).start(s, fast=True)
    if 'W' in extras:
      def cowake():
        yield 0
        wake()
        yield 0
      R.Task(target=cowake).start(s, fast=True)
    if 'C' in extras:
      def cocall():
        yield 0
        submit('coop')
        yield 0
      R.Task(target=cocall).start(s, fast=True)
    def foreign(name, prog):
      for ch in prog:
        if ch == 'c': submit(name)
        elif ch == 'w': wake()
        elif ch == 'r':
          mine = wakes[-1][0] if wakes else 0
          ctl.block(lambda: any(t > mine for t in truns), None, 'wait-until-the-woken-task-ran')
        elif ch in 'SNX':
          depth = 2 if ch == 'N' else 1
          def section(d):
            with s.synchronized():
              if ch == 'X':
                try:
                  with s.synchronized(): raise ValueError("inner section fails")
                except ValueError:
                  pass                        # handled: the outer section is still active
              if d > 1: return section(d - 1)
              insec[0] += 1
              # while a foreign thread is inside, the scheduler thread is parked in the SyncTask (blocked on its out-lock, or between letting
              # the caller in and blocking) - wherever else it is, cooperative code can run concurrently with the section
              b = sched.blocked; wh = sched.where
              parked = (b is not None and b[2] == 'Lock.acquire') or (wh is not None and wh[0] == 'run' and 'outlock' in ctl.stmt_text(R.__file__, wh[1]))
              if not parked and not any('not parked' in x for x in problems):
                problems.append('a foreign thread is inside the synchronized section while the scheduler thread is not parked (it is at %r)' % (wh,))
              ctl.mark('in-section-1'); ctl.mark('in-section-2')
              insec[0] -= 1
          section(depth)
    sched = ctl.spawn('sched', s.run)
    s._thread = sched
    phase = [0]; fthreads = []; polls = [0]
    def pending():
      p = []
      for k in submitted:
        if not any(r[0] == k for r in ran): p.append('callable %d not run' % k)
      for w in wakes:
        if w[1] and not any(t > w[0] for t in truns): p.append('task woken at %d has not run since' % w[0])
      for t in fthreads:
        if not t.done: p.append('thread %s is blocked in %s' % (t.name, t.blocked[2] if t.blocked else '?'))
      return p
    def on_stuck(timed):
      if phase[0] == 0:
        phase[0] = 1
        if 'V' in extras:
          def cowake_first():
            wake()
            yield 0
          R.Task(target=cowake_first).start(s, fast=True)
        for i, prog in enumerate(progs):
          fthreads.append(ctl.spawn('F%d' % i, foreign, 'F%d' % i, prog)); fthreads[-1].prio = 0
        return 'continue'
      p = pending()
      if not p: return 'quit'
      polls[0] += 1
      if polls[0] == 1: problems.append('work is pending but every thread is blocked - only a polling timeout can notice it: ' + '; '.join(p))
      if polls[0] > 4: return 'quit'
      return 'timeout' if timed else 'deadlock'
    def on_step():
      if T is not None and sum(1 for t in s._ready if t is T) > 1 and not any('queued twice' in x for x in problems):
        problems.append('the woken task is queued twice')
    try:
      result = ctl.run(on_step, on_stuck)
    finally:
      s._hasQuit = True
      stuck = ctl.drain()
    if stuck: problems.append('threads did not finish: %r' % stuck)
    problems += ctl.problems
    for t in ctl.threads:
      if t.exc is not None: problems.append('thread %s raised %r' % (t.name, t.exc))
  finally:
    sys.stdout = out; sys.stderr = err
    gc.enable()
    R.threading, R.Thread, R.select, R.time, U.makePinger = saved
    R.pox.lib.util.makePinger = saved[4]
  if problems and not ctx.sym:
    print(problems); print('schedule:', ' '.join('%s:%s' % (a, c) for a, b, c in ctl.trace))
  ctx.check('no deadlock, no lost or poll-dependent wake-up, no crash', not problems)
  ks = [r[0] for r in ran]
  ctx.check('every submitted callable ran exactly once', sorted(ks) == sorted(submitted) and len(submitted) == ncall[0])
  ctx.check('callables ran on the scheduler thread', all(r[1] is sched for r in ran))
  ctx.check('per-thread submission order', all([k for k in ks if k in lst] == lst for lst in order.values()))
  ctx.check('nothing cooperative ran inside a synchronized section', not any(r[2] for r in ran) and not any(x[1] for x in klog))
  if 'K' in extras: ctx.check('the stepping task finished', [x[0] for x in klog] == [0, 1, 2])
  if T is not None:
    done_wakes = [w for w in wakes if w[1]]
    ctx.check('a woken task is never lost', all(any(t > w[0] for t in truns) for w in done_wakes))
    ctx.check('wakes are not multiplied', len(truns) <= len(wakes))
  ctx.note('steps', ctl.step)
  if ctl.preemptions == bound: ctx.witness('bound-reached')
  ctx.witness('done')


class WouldBlock(Exception):
  pass


def h_pinger(ctx, kind):
  """The wake-up channel itself (pox.lib.util.make_pinger, the real PipePinger / SocketPinger code) over a model of the pipe / socket pair:
  a byte counter; reading an empty blocking pipe never returns (reported), a non-blocking socket raises.  The number of pings that piled up
  while the scheduler was busy is *symbolic* (1..5000): acknowledging them (pong_all, as CallLaterTask.run and SelectHub._select do after
  select() reported the pinger readable) must never block, must consume at least one byte, and a ping written afterwards is not lost."""
  env.quiet()
  U = ctx.pox('pox.lib.util')
  n = ctx.int('pending', 1, 5000)
  st = dict(pending=0, blocked=False, reads=0)
  class Chunk:
    def __init__(self, k): self.k = k
    def __symlen__(self): return self.k
    def __len__(self): return int(self.k)
  def take(maxn):
    st['reads'] += 1
    if st['reads'] > 20: raise RuntimeError("runaway read loop")
    if bool(st['pending'] == 0):
      st['blocked'] = True
      raise WouldBlock("read on an empty wake-up channel")
    k = ctx.Ite(st['pending'] < maxn, st['pending'], maxn) if ctx.sym else min(st['pending'], maxn)
    st['pending'] = st['pending'] - k
    return Chunk(k)
  class OS:
    name = 'posix'
    def pipe(self): return (10, 11)
    def write(self, fd, data): st['pending'] = st['pending'] + len(data); return len(data)
    def read(self, fd, maxn): return take(maxn)
    def close(self, fd): pass
    def __getattr__(self, a): return getattr(os_real, a)
  import os as os_real
  saved = U.os
  try:
    U.os = OS()
    p = U.make_pinger()
    ctx.check('a pinger is built on the pipe', p.fileno() == 10)
    p.ping()
    ctx.check('a ping makes the channel readable', bool(st['pending'] == 1))
    st['pending'] = n                 # n pings piled up while the scheduler thread was busy / held in a synchronized section
    try:
      if kind == 'pong_all': p.pong_all()
      elif kind == 'pongAll': p.pongAll()
      else: p.pong()
    except WouldBlock:
      pass
    ctx.check('acknowledging a readable pinger never blocks (no read on an empty channel)', not st['blocked'])
    ctx.check('acknowledging consumes at least one pending ping', bool(st['pending'] < n))
    before = st['pending']
    p.ping()
    ctx.check('a ping written after the acknowledgement is still pending (the next select() returns at once)', bool(st['pending'] == before + 1) and bool(st['pending'] >= 1))
  finally:
    try: p._w = p._r = -1            # (its __del__ closes the descriptors: never the real ones of this process)
    except NameError: pass
    U.os = saved
  if bool(n >= 1024): ctx.witness('full-buffer')
  ctx.witness('done')


def obligations(tier):
  thorough = tier != 'quick'
  A, T, Rl, Z = 'acq', 'try', 'rel', 'zero'
  lp = [
    ([[(A, 0), (Z, 0), (Rl, 0)], [(A, 0), (Rl, 0)]], 1),
    ([[(A, 0), (Rl, 0)], [(T, 0), (Z, 0), (T, 0)]], 1),
    ([[(A, 0), (Z, 0), (Rl, 0)], [(A, 0), (Rl, 0)], [(A, 0), (Rl, 0)]], 1),
    ([[(Rl, 0), (Z, 0)], [(A, 0), (Rl, 0)]], 1),
    ([[(A, 0), (A, 1), (Rl, 1), (Rl, 0)], [(A, 1), (Rl, 1)]], 2),
    ([[(A, 0), (Z, 0), (A, 1), (Rl, 0)], [(A, 1), (Z, 0), (Rl, 1)]], 2),
    ([[(A, 0)], [(A, 0), (Rl, 0)]], 1),
    ([[(A, 0), (Rl, 0), (A, 0), (Rl, 0)], [(T, 0), (A, 0), (Rl, 0)]], 1),
    # a refused non-blocking acquire while the lock is held, then the holder releases and others go on using the lock
    ([[(A, 0), (Z, 0), (Rl, 0), (Z, 0)], [(T, 0), (Z, 0), (Z, 0), (A, 0), (Rl, 0)]], 1),
    ([[(A, 0), (Z, 0), (Rl, 0)], [(T, 0), (Z, 0), (Z, 0), (T, 0)], [(Z, 0), (Z, 0), (Z, 0), (A, 0), (Rl, 0)]], 1),
    ([[(A, 0), (Z, 0), (Z, 0), (Rl, 0)], [(Z, 0), (T, 0), (Z, 0), (Z, 0), (Z, 0), (Z, 0)], [(Z, 0), (Z, 0), (A, 0), (Rl, 0)]], 1),
  ]
  if thorough:
    lp += [([[(A, 0), (Z, 0), (Rl, 0)]] * 3, 1), ([[(A, 0), (A, 1), (Rl, 0), (Rl, 1)], [(A, 1), (A, 0), (Rl, 1), (Rl, 0)]], 2),
           ([[(T, 0), (Rl, 0)], [(T, 0), (Rl, 0)], [(A, 0), (Rl, 0)]], 1)]
  cl = ['cy', 'ccy', 'cyc', 'cycy', 'ccyyc', 'wy', 'wwy', 'wyw', 'cwyc', 'wcwy', 'cccy', 'ywwyy', 'Cy', 'CCy', 'cCy', 'Cyc', 'yCyC', 'CwCy']
  if thorough: cl += ['ccwwyy', 'cycycy', 'wcwcwy', 'ccccy', 'ywywyw']
  import itertools
  idle_plans = [''.join(p) for n in (1, 2, 3) for p in itertools.product('BWCTI', repeat=n) if 'I' in p]
  if thorough: idle_plans += [''.join(p) for p in itertools.product('BWCTI', repeat=4) if p.count('I') >= 1]
  pre = [dict(scenario=sc, hub=h, bound=1) for sc in SCENARIOS for h in ('inline', 'threaded')]
  pre += [dict(scenario=sc, hub='threaded', bound=1, nondefault=True) for sc in ('wake1+1', 'call+wake', 'sync+call')]
  if thorough: pre += [dict(scenario=sc, hub=h, bound=2) for sc in ('call1+1', 'wake1+1', 'sync', 'call+wake') for h in ('inline', 'threaded')]
  BOUNDS[tier] = dict(preempt_scenarios={k: v for k, v in SCENARIOS.items()}, preemption_bound="1 for all scenarios x {inline, threaded}" + ("; 2 for call1+1, wake1+1, sync, call+wake" if thorough else ""), lock_programs=len(lp), calllater_plans=cl, idle_plans="all sequences over {B,W,C,T,I} with an idle, length <= %d" % (4 if thorough else 3), legend="c callLater(symbolic: raises?), C callLater preempted inside its wake-up ping (scheduler runs to quiescence there), y scheduler step, w schedule(sleeping task)")
  return [
    Obligation('O1_locks', h_locks, [dict(progs=p, nlocks=n) for p, n in lp], witnesses=('done', 'unheld-release-raised'), max_decisions=20000, mode='int',
               desc='Lock mutual exclusion / hand-off / no lost waiter over task programs'),
    Obligation('O2_handoff', h_calllater, [dict(plan=p) for p in cl], witnesses=('done',), max_decisions=20000, mode='int',
               desc='callLater / schedule at operation granularity: exactly once, in order, inside the scheduler; single queueing of woken tasks'),
    Obligation('O4_preempt', h_preempt, pre, witnesses=('done', 'bound-reached'), max_decisions=20000, mode='int', path_seconds=120,
               desc='real threads (foreign, scheduler, hub) interleaved at source-line granularity of recoco.py, all schedules with a bounded number of preemptions'),
    Obligation('O5_pinger', h_pinger, [dict(kind=k) for k in ('pong_all', 'pongAll', 'pong')], witnesses=('done', 'full-buffer'), mode='int',
               desc='the wake-up channel (real PipePinger over a model pipe): acknowledging any number of piled-up pings never blocks and loses no later ping'),
    Obligation('O3_idle', h_idle, [dict(plan=p) for p in idle_plans], witnesses=('done',), mode='int',
               desc='threaded select hub, operation granularity: a wake-up since the last idle() makes the next idle() return at once; otherwise it blocks <= CYCLE_MAXIMUM'),
  ]
