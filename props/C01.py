"""C01 - OpenFlow 1.0 wire codec is lossless and matches the specified layout."""
from symx.run import Obligation

CLAIM = {
 'technique': "bounded symbolic execution of the real pack/unpack code with z3 (symx, QF_BV): spec-layout encoder equality + round trip, per-path solver verdicts",
 'text': "Every message/action/stats-body/queue/match class of libopenflow_01 is packed with all integer fields symbolic over their full wire width; z3 "
         "proves on every path that the bytes equal an independent table-driven OpenFlow 1.0 layout encoder (offsets, widths, zero padding, length field), "
         "that unpack consumes exactly len bytes and yields an equal object, and that re-packing is byte-identical. Bounded by the stated list/payload sizes."
         " Also: every decoded object is decoded again in the middle of a larger buffer (buffer-relative offsets), and an nx_match changed in place between two encodings of its message (O4_nx_reuse). O5_stats_reuse: a statistics request / reply re-encoded after its body was assigned, changed in place, grown or given as a tuple equals a freshly built message.",
 'note': "Trusted: CPython, z3, symx proxies/struct model (selftest), the layout tables in props/C01.py transcribed from openflow.h 1.0.0. "
         "String fields and list lengths are concrete per case; integer/address fields and payload bytes are fully symbolic.",
}
EXPLANATION = ("Real libopenflow_01 pack()/unpack()/unpack_new()/__len__ executed on symbolic field values (QF_BV); oracle = independent layout "
               "encoder written from the OpenFlow 1.0.0 structures; every path's equality queries decided by z3.")
FUNCTIONS = ["pox.openflow.libopenflow_01: pack/unpack/unpack_new/__len__/__eq__ of every ofp_* class, _unpack_actions, _unpack_queue_props, "
             "_read/_unpack/_skip/_readzs/_readether/_readip/_packzs", "pox.lib.addresses.EthAddr/IPAddr raw paths"]
BOUNDS = {}
OUTSIDE = ["lists longer than the stated bounds", "payloads longer than the stated lengths", "the 64 KiB total-length boundary",
           "symbolic characters in string fields (strings are concrete per case)", "nx_action_bundle with a destination field, flow_mod_spec shapes other than the three of the nx_action_learn docstring", "IPv6-valued NXM fields"]
ASSUMPTIONS = ["struct.pack/unpack modelled bit-precisely by symx.shims.StructShim (validated against the real module)",
               "ofp_match objects inside other messages are built through the public attribute setters with prerequisites met "
               "(dl_type=0x0800, nw_proto=6) or left fully wildcarded; the free-form match is covered by obligation O3"]

U = {'u8': 1, 'u16': 2, 'u32': 4, 'u64': 8}

# (attr, kind, offset) ; kinds: u8/u16/u32/u64, eth, ip, zsN, padN, match, port, hdr
HDR = [('version', 'u8', 0), ('header_type', 'u8', 1), ('__len__', 'u16', 2), ('xid', 'u32', 4)]

PHY_PORT = [('port_no', 'u16', 0), ('hw_addr', 'eth', 2), ('name', 'zs16', 8), ('config', 'u32', 24), ('state', 'u32', 28),
            ('curr', 'u32', 32), ('advertised', 'u32', 36), ('supported', 'u32', 40), ('peer', 'u32', 44)]

FLOW_REQ = [('match', 'match', 0), ('table_id', 'u8', 40), (None, 'pad1', 41), ('out_port', 'u16', 42)]

SPECS = {
  # --- messages: (header_type, fixed fields after header, fixed size, tail)
  'ofp_hello': dict(msg=0, fields=[], size=8),
  'ofp_error': dict(msg=1, fields=[('type', 'u16', 8), ('code', 'u16', 10)], size=12, tail='data'),
  'ofp_echo_request': dict(msg=2, fields=[], size=8, tail='body'),
  'ofp_echo_reply': dict(msg=3, fields=[], size=8, tail='body'),
  'ofp_vendor_generic': dict(msg=4, fields=[('vendor', 'u32', 8)], size=12, tail='data'),
  'ofp_features_request': dict(msg=5, fields=[], size=8),
  'ofp_features_reply': dict(msg=6, fields=[('datapath_id', 'u64', 8), ('n_buffers', 'u32', 16), ('n_tables', 'u8', 20), (None, 'pad3', 21),
                                            ('capabilities', 'u32', 24), ('actions', 'u32', 28)], size=32, tail='ports'),
  'ofp_get_config_request': dict(msg=7, fields=[], size=8),
  'ofp_get_config_reply': dict(msg=8, fields=[('flags', 'u16', 8), ('miss_send_len', 'u16', 10)], size=12),
  'ofp_set_config': dict(msg=9, fields=[('flags', 'u16', 8), ('miss_send_len', 'u16', 10)], size=12),
  'ofp_packet_in': dict(msg=10, fields=[('_buffer_id', 'u32', 8), ('_total_len', 'u16', 12), ('in_port', 'u16', 14), ('reason', 'u8', 16),
                                        (None, 'pad1', 17)], size=18, tail='data'),
  'ofp_flow_removed': dict(msg=11, fields=[('match', 'match', 8), ('cookie', 'u64', 48), ('priority', 'u16', 56), ('reason', 'u8', 58),
                                           (None, 'pad1', 59), ('duration_sec', 'u32', 60), ('duration_nsec', 'u32', 64),
                                           ('idle_timeout', 'u16', 68), (None, 'pad2', 70), ('packet_count', 'u64', 72),
                                           ('byte_count', 'u64', 80)], size=88),
  'ofp_port_status': dict(msg=12, fields=[('reason', 'u8', 8), (None, 'pad7', 9), ('desc', 'port', 16)], size=64),
  'ofp_packet_out': dict(msg=13, fields=[('_buffer_id', 'u32', 8), ('in_port', 'u16', 12), ('__actions_len__', 'u16', 14)], size=16,
                         tail='actions+data'),
  'ofp_flow_mod': dict(msg=14, fields=[('match', 'match', 8), ('cookie', 'u64', 48), ('command', 'u16', 56), ('idle_timeout', 'u16', 58),
                                       ('hard_timeout', 'u16', 60), ('priority', 'u16', 62), ('_buffer_id', 'u32', 64),
                                       ('out_port', 'u16', 68), ('flags', 'u16', 70)], size=72, tail='actions'),
  'ofp_port_mod': dict(msg=15, fields=[('port_no', 'u16', 8), ('hw_addr', 'eth', 10), ('config', 'u32', 16), ('mask', 'u32', 20),
                                       ('advertise', 'u32', 24), (None, 'pad4', 28)], size=32),
  'ofp_barrier_request': dict(msg=18, fields=[], size=8),
  'ofp_barrier_reply': dict(msg=19, fields=[], size=8),
  'ofp_queue_get_config_request': dict(msg=20, fields=[('port', 'u16', 8), (None, 'pad2', 10)], size=12),
  'ofp_queue_get_config_reply': dict(msg=21, fields=[('port', 'u16', 8), (None, 'pad6', 10)], size=16, tail='queues'),
  # --- actions: type, fields after (type,len)
  'ofp_action_output': dict(act=0, fields=[('port', 'u16', 4), ('max_len', 'u16', 6)], size=8),
  'ofp_action_vlan_vid': dict(act=1, fields=[('vlan_vid', 'u16', 4), (None, 'pad2', 6)], size=8),
  'ofp_action_vlan_pcp': dict(act=2, fields=[('vlan_pcp', 'u8', 4), (None, 'pad3', 5)], size=8),
  'ofp_action_strip_vlan': dict(act=3, fields=[(None, 'pad4', 4)], size=8),
  'ofp_action_dl_addr:4': dict(act=4, fields=[('dl_addr', 'eth', 4), (None, 'pad6', 10)], size=16),
  'ofp_action_dl_addr:5': dict(act=5, fields=[('dl_addr', 'eth', 4), (None, 'pad6', 10)], size=16),
  'ofp_action_nw_addr:6': dict(act=6, fields=[('nw_addr', 'ip', 4)], size=8),
  'ofp_action_nw_addr:7': dict(act=7, fields=[('nw_addr', 'ip', 4)], size=8),
  'ofp_action_nw_tos': dict(act=8, fields=[('nw_tos', 'u8', 4), (None, 'pad3', 5)], size=8),
  'ofp_action_tp_port:9': dict(act=9, fields=[('tp_port', 'u16', 4), (None, 'pad2', 6)], size=8),
  'ofp_action_tp_port:10': dict(act=10, fields=[('tp_port', 'u16', 4), (None, 'pad2', 6)], size=8),
  'ofp_action_enqueue': dict(act=11, fields=[('port', 'u16', 4), (None, 'pad6', 6), ('queue_id', 'u32', 12)], size=16),
  'ofp_action_vendor_generic': dict(act=65535, fields=[('vendor', 'u32', 4)], size=8, tail='body'),
  # --- plain structures
  'ofp_phy_port': dict(fields=PHY_PORT, size=48),
  'ofp_packet_queue': dict(fields=[('queue_id', 'u32', 0), ('__len__', 'u16', 4), (None, 'pad2', 6)], size=8, tail='properties'),
  'ofp_queue_prop_min_rate': dict(fields=[('property', 'const1:u16', 0), ('__len__', 'u16', 2), (None, 'pad4', 4), ('rate', 'u16', 8),
                                          (None, 'pad6', 10)], size=16),
  'ofp_queue_prop_none': dict(fields=[('property', 'const0:u16', 0), ('__len__', 'u16', 2), (None, 'pad4', 4)], size=8),
  # --- stats bodies (stat = type value, dir = request/reply)
  'ofp_desc_stats': dict(stat=0, dir='reply', fields=[('mfr_desc', 'zs256', 0), ('hw_desc', 'zs256', 256), ('sw_desc', 'zs256', 512),
                                                      ('serial_num', 'zs32', 768), ('dp_desc', 'zs256', 800)], size=1056),
  'ofp_desc_stats_request': dict(stat=0, dir='request', fields=[], size=0),
  'ofp_table_stats_request': dict(stat=3, dir='request', fields=[], size=0),
  'ofp_flow_stats_request': dict(stat=1, dir='request', fields=FLOW_REQ, size=44),
  'ofp_aggregate_stats_request': dict(stat=2, dir='request', fields=FLOW_REQ, size=44),
  'ofp_flow_stats': dict(stat=1, dir='reply', list=True,
                         fields=[('__len__', 'u16', 0), ('table_id', 'u8', 2), (None, 'pad1', 3), ('match', 'match', 4),
                                 ('duration_sec', 'u32', 44), ('duration_nsec', 'u32', 48), ('priority', 'u16', 52),
                                 ('idle_timeout', 'u16', 54), ('hard_timeout', 'u16', 56), (None, 'pad6', 58), ('cookie', 'u64', 64),
                                 ('packet_count', 'u64', 72), ('byte_count', 'u64', 80)], size=88, tail='actions'),
  'ofp_aggregate_stats': dict(stat=2, dir='reply', fields=[('packet_count', 'u64', 0), ('byte_count', 'u64', 8), ('flow_count', 'u32', 16),
                                                           (None, 'pad4', 20)], size=24),
  'ofp_table_stats': dict(stat=3, dir='reply', list=True,
                          fields=[('table_id', 'u8', 0), (None, 'pad3', 1), ('name', 'zs32', 4), ('wildcards', 'u32', 36),
                                  ('max_entries', 'u32', 40), ('active_count', 'u32', 44), ('lookup_count', 'u64', 48),
                                  ('matched_count', 'u64', 56)], size=64),
  'ofp_port_stats_request': dict(stat=4, dir='request', fields=[('port_no', 'u16', 0), (None, 'pad6', 2)], size=8),
  'ofp_port_stats': dict(stat=4, dir='reply', list=True,
                         fields=[('port_no', 'u16', 0), (None, 'pad6', 2)] +
                                [(n, 'u64', 8 + 8 * i) for i, n in enumerate(
                                  ['rx_packets', 'tx_packets', 'rx_bytes', 'tx_bytes', 'rx_dropped', 'tx_dropped', 'rx_errors', 'tx_errors',
                                   'rx_frame_err', 'rx_over_err', 'rx_crc_err', 'collisions'])], size=104),
  'ofp_queue_stats_request': dict(stat=5, dir='request', fields=[('port_no', 'u16', 0), (None, 'pad2', 2), ('queue_id', 'u32', 4)], size=8),
  'ofp_queue_stats': dict(stat=5, dir='reply', list=True,
                          fields=[('port_no', 'u16', 0), (None, 'pad2', 2), ('queue_id', 'u32', 4), ('tx_bytes', 'u64', 8),
                                  ('tx_packets', 'u64', 16), ('tx_errors', 'u64', 24)], size=32),
  'ofp_vendor_stats_generic': dict(stat=65535, dir='both', fields=[('vendor', 'u32', 0)], size=4, tail='data'),
}

MATCH_LAYOUT = [('wildcards', 'u32', 0), ('in_port', 'u16', 4), ('dl_src', 'eth', 6), ('dl_dst', 'eth', 12), ('dl_vlan', 'u16', 18),
                ('dl_vlan_pcp', 'u8', 20), (None, 'pad1', 21), ('dl_type', 'u16', 22), ('nw_tos', 'u8', 24), ('nw_proto', 'u8', 25),
                (None, 'pad2', 26), ('nw_src', 'ip', 28), ('nw_dst', 'ip', 32), ('tp_src', 'u16', 36), ('tp_dst', 'u16', 38)]

ACTION_KEYS = [k for k, v in SPECS.items() if 'act' in v]
STR_CASES = ["", "a", "eth0", "0123456789abcde", "0123456789abcdef", "caf\xe9-\xff0", "\xe9" * 15]      # incl. non-ASCII latin-1 text up to the field width


def be(v, n):
  return [(v >> (8 * (n - 1 - i))) & 0xff for i in range(n)]


class Builder:
  """Builds a POX object with symbolic fields through the public attributes and, independently, the bytes the
  OpenFlow 1.0 layout prescribes for it."""
  def __init__(self, ctx, of, strs=1):
    self.ctx = ctx; self.of = of; self.n = 0; self.strs = strs; self.flow_mod = False
    self.addrs = ctx.pox('pox.lib.addresses')

  def name(self, base):
    self.n += 1
    return "%s#%d" % (base, self.n)

  def value(self, kind, base):
    """-> (python value to assign, expected wire bytes)"""
    ctx = self.ctx
    if kind in U:
      n = U[kind]
      v = ctx.int(self.name(base), 0, (1 << (8 * n)) - 1)
      return v, be(v, n)
    if kind == 'eth':
      b = ctx.bytes(self.name(base), 6)
      return self.addrs.EthAddr(b), list(b)
    if kind == 'ip':
      b = ctx.bytes(self.name(base), 4)
      return self.addrs.IPAddr(b), list(b)
    if kind.startswith('zs'):
      n = int(kind[2:])
      s = STR_CASES[self.strs % len(STR_CASES)][:n]
      self.strs += 1
      return s, list(s.encode('latin-1')) + [0] * (n - len(s))
    if kind == 'match':
      return self.match(base)
    if kind == 'port':
      return self.struct('ofp_phy_port', base)
    raise KeyError(kind)

  def match(self, base):
    ctx = self.ctx; of = self.of
    m = of.ofp_match()
    wild = ctx.bool(self.name(base + '.allwild'))
    if wild:
      # POX keeps the two 6-bit prefix counters normalised to 32 ("all bits wildcarded"): 0x3820ff
      wc = 0xff | (32 << 8) | (32 << 14) | (3 << 20)
      if self.flow_mod:
        # documented wire normalisation (OF 1.0.1 sec. 3.4): dl_type is wildcarded, so the nw_*/tp_* fields are
        # ignored and sent as zero *non-wildcarded* fields
        wc &= ~((1 << 21) | (1 << 5) | (0x3f << 8) | (0x3f << 14) | (1 << 6) | (1 << 7))
      exp = be(wc, 4) + [0] * 36
      return m, exp
    vals = {}
    exp = [0] * 40
    for attr, kind, off in MATCH_LAYOUT:
      if attr is None or attr == 'wildcards': continue
      if attr == 'dl_type': v, e = 0x0800, be(0x0800, 2)
      elif attr == 'nw_proto': v, e = 6, [6]
      else: v, e = self.value(kind, base + '.' + attr)
      setattr(m, attr, v)
      exp[off:off + len(e)] = e
    return m, exp

  def struct(self, key, base, ntail=0, tailsel=None):
    """-> (object, expected bytes)"""
    ctx = self.ctx; of = self.of
    spec = SPECS[key]
    clsname = key.split(':')[0]
    cls = getattr(of, clsname)
    o = cls()
    exp = [0] * spec['size']
    fields = list(spec['fields'])
    lenpos = []
    if 'msg' in spec:
      xid = ctx.int(self.name(base + '.xid'), 0, 0xffffffff)
      o.xid = xid
      exp[0] = 1; exp[1] = spec['msg']; exp[4:8] = be(xid, 4); lenpos.append((2, 0))
    if 'act' in spec:
      o.type = spec['act']
      exp[0:2] = be(spec['act'], 2); lenpos.append((2, 0))
    actions_len_pos = None
    self.flow_mod = (key == 'ofp_flow_mod')
    nodata = False
    for attr, kind, off in fields:
      if attr is None: continue
      if attr == '__len__': lenpos.append((off, 0)); continue
      if key == 'ofp_packet_in' and attr == '_total_len':
        v = ctx.int(self.name(base + '.total_len'), ntail, 0xffff)     # validity: total_len >= len(data)
        o._total_len = v; exp[off:off + 2] = be(v, 2); continue
      if key == 'ofp_packet_out' and attr == '_buffer_id' and ntail:
        exp[off:off + 4] = be(0xffffffff, 4); continue                # validity: data and buffer_id are exclusive
      if attr == '__actions_len__': actions_len_pos = off; continue
      if kind.startswith('const'):
        c, k = kind[5:].split(':'); exp[off:off + U[k]] = be(int(c), U[k])
        if key == 'ofp_queue_prop_none': o.property = int(c)    # the generic base leaves it None ("purposely bad"): caller sets it
        continue
      v, e = self.value(kind, base + '.' + attr)
      setattr(o, attr, v)
      exp[off:off + len(e)] = e
    if key == 'ofp_action_output':
      # max_len is only meaningful for OFPP_CONTROLLER (OF 1.0 sec. 5.2.4); POX documents that pack() normalises it to 0 otherwise
      exp[6:8] = [ctx.Ite(o.port == 0xfffd, x, 0) for x in exp[6:8]]
    tail = spec.get('tail')
    if tail in ('data', 'body'):
      d = ctx.bytes(self.name(base + '.' + tail), ntail)
      setattr(o, tail, d)
      exp += list(d)
    elif tail in ('actions', 'actions+data'):
      acts = []; alen = 0
      for i in range(ntail):
        a, e = self.struct(tailsel[i], "%s.a%d" % (base, i), ntail=(4 if tailsel[i] == 'ofp_action_vendor_generic' else 0))
        acts.append(a); exp += e; alen += len(e)
      o.actions = acts
      if actions_len_pos is not None: exp[actions_len_pos:actions_len_pos + 2] = be(alen, 2)
      if tail == 'actions+data':
        d = ctx.bytes(self.name(base + '.data'), 3 if ntail else 0)
        o.data = d
        exp += list(d)
    elif tail == 'ports':
      ps = []
      for i in range(ntail):
        p, e = self.struct('ofp_phy_port', "%s.p%d" % (base, i)); ps.append(p); exp += e
      o.ports = ps
    elif tail == 'queues':
      qs = []
      for i in range(ntail):
        q, e = self.struct('ofp_packet_queue', "%s.q%d" % (base, i), ntail=i, tailsel=['ofp_queue_prop_min_rate', 'ofp_queue_prop_none'])
        qs.append(q); exp += e
      o.queues = qs
    elif tail == 'properties':
      pr = []
      for i in range(ntail):
        p, e = self.struct(tailsel[i], "%s.pr%d" % (base, i)); pr.append(p); exp += e
      o.properties = pr
    total = len(exp)
    for off, _ in lenpos: exp[off:off + 2] = be(total, 2)
    return o, exp


def _eq_bytes(ctx, got, exp):
  from symx.core import SymBytes
  if len(got) != len(exp): return False
  if ctx.sym: return SymBytes(list(got)) == SymBytes(exp)
  return bytes(got) == bytes(exp)



def at_offset(ctx, b, decode, tag=''):
  """the same bytes in the middle of a receive buffer: decode(buf, offset) -> (end offset, object)"""
  from symx.core import SymBytes
  pre = [0xa5, 1, 0, 9, 0x5a, 0xff, 0, 1]; post = [1, 2, 0, 0]
  buf = SymBytes(pre + list(b) + post) if ctx.sym else bytes(pre) + bytes(b) + bytes(post)
  off, o = decode(buf, len(pre))
  ctx.check(tag + 'decoded at a buffer offset: consumed', off == len(pre) + len(b))
  return o


def roundtrip(ctx, o, exp, tag, plain=False, eq=True):
  b = o.pack()
  ctx.check(tag + 'len(pack)==len(obj)', len(b) == len(o))
  ctx.check(tag + 'layout', _eq_bytes(ctx, b, exp))
  if not ctx.sym and bytes(b) != bytes(exp):
    print("layout mismatch: got ", bytes(b).hex()); print("            expected", bytes(exp).hex())
  if not plain:
    off, o2 = type(o).unpack_new(b)
  else:
    o2 = type(o)()
    off = o2.unpack(b, 0)
  ctx.check(tag + 'consumed', off == len(b))
  if eq: ctx.check(tag + 'equal', o2 == o)
  b2 = o2.pack()
  ctx.check(tag + 'repack', _eq_bytes(ctx, b2, list(b)))
  # the same bytes in the middle of a receive buffer (other messages before and after): decoding at an offset consumes exactly the
  # message and yields the same object (offsets inside a decoder are buffer-relative, length fields message-relative)
  from symx.core import SymBytes
  pre = [0xa5, 1, 0, 9, 0x5a]; post = [1, 2, 0]
  buf = SymBytes(pre + list(b) + post) if ctx.sym else bytes(pre) + bytes(b) + bytes(post)
  if not plain:
    off3, o3 = type(o).unpack_new(buf, len(pre))
  else:
    o3 = type(o)()
    off3 = o3.unpack(buf, len(pre))
  ctx.check(tag + 'decoded at a buffer offset: consumed', off3 == len(pre) + len(b))
  if eq: ctx.check(tag + 'decoded at a buffer offset: equal', o3 == o)
  ctx.witness('roundtrip')
  return b, o2


def h_struct(ctx, key, ntail=0, tailsel=None, strs=1):
  of = ctx.pox('pox.openflow.libopenflow_01')
  B = Builder(ctx, of, strs)
  o, exp = B.struct(key, key.split(':')[0][4:], ntail, tailsel)
  spec = SPECS[key]
  if 'stat' in spec:
    return h_stats(ctx, of, B, key, o, exp)
  b, o2 = roundtrip(ctx, o, exp, '', plain=('msg' not in spec and 'act' not in spec))
  if 'msg' in spec:
    # also through the type-dispatch table used by the connection layer
    cls2 = of._message_type_to_class[spec['msg']]
    ctx.check('dispatch class', cls2 is type(o))


def h_stats(ctx, of, B, key, body, exp):
  spec = SPECS[key]
  dirs = ['request', 'reply'] if spec['dir'] == 'both' else [spec['dir']]
  for d in dirs:
    xid = ctx.int(B.name('stats.xid'), 0, 0xffffffff)
    flags = ctx.int(B.name('stats.flags'), 0, 0xffff)
    if d == 'request':
      m = of.ofp_stats_request(); m.body = body
    else:
      m = of.ofp_stats_reply(); m.body = [body] if spec.get('list') else body
    m.xid = xid; m.flags = flags
    if key == 'ofp_vendor_stats_generic': m.type = 65535
    hdr = [1, 16 if d == 'request' else 17] + be(12 + len(exp), 2) + be(xid, 4) + be(spec['stat'], 2) + be(flags, 2)
    roundtrip(ctx, m, hdr + exp, d + ':')


def h_stats_list(ctx, key, n):
  """multi-entry stats reply lists"""
  of = ctx.pox('pox.openflow.libopenflow_01')
  B = Builder(ctx, of)
  spec = SPECS[key]
  bodies = []; exp = []
  for i in range(n):
    tsel = ['ofp_action_output'] * i if spec.get('tail') == 'actions' else None
    o, e = B.struct(key, "e%d" % i, ntail=(i if tsel else 0), tailsel=tsel)
    bodies.append(o); exp += e
  m = of.ofp_stats_reply(); m.body = bodies
  m.type = spec['stat']
  xid = ctx.int('xid', 0, 0xffffffff); m.xid = xid
  hdr = [1, 17] + be(12 + len(exp), 2) + be(xid, 4) + be(spec['stat'], 2) + be(0, 2)
  roundtrip(ctx, m, hdr + exp, '')


def h_unknown_stats(ctx, n):
  """stats request of a type POX has no class for: decoded into the generic container, must re-encode identically"""
  of = ctx.pox('pox.openflow.libopenflow_01')
  t = ctx.int('type', 6, 0xfffe)
  xid = ctx.int('xid', 0, 0xffffffff); flags = ctx.int('flags', 0, 0xffff)
  body = ctx.bytes('body', n)
  raw = [1, 16] + be(12 + n, 2) + be(xid, 4) + be(t, 2) + be(flags, 2) + list(body)
  from symx.core import SymBytes
  b = SymBytes(raw) if ctx.sym else bytes(raw)
  off, m = of.ofp_stats_request.unpack_new(b)
  ctx.check('consumed', off == len(raw))
  ctx.check('type', m.type == t)
  b2 = m.pack()
  ctx.check('repack', _eq_bytes(ctx, b2, raw))
  ctx.witness('roundtrip')


def h_actions(ctx, host, sel):
  """action lists inside flow_mod / packet_out / flow_stats"""
  h_struct(ctx, host, ntail=len(sel), tailsel=list(sel))


# ---- O3: the free-form match -------------------------------------------------------------------
def h_match_forms(ctx, embed):
  """ofp_match built through its public attribute API with the address fields given in every form the class accepts (EthAddr object / raw 6
  bytes; IPAddr object / dotted text / (address, prefix-bits) tuple / CIDR text) - forms are solver-chosen, the address bytes symbolic where the form
  allows: the encoding equals that of the canonical EthAddr/IPAddr form (whose layout O3_match decides), decoding yields an equal match, also when the
  match travels inside a flow_mod / flow_removed."""
  of = ctx.pox('pox.openflow.libopenflow_01'); addrs = ctx.pox('pox.lib.addresses')
  from props import env
  src = ctx.bytes('dl_src', 6); dst = ctx.bytes('dl_dst', 6)
  ctx.assume(ctx.Not(ctx.Eq(src, dst)))
  fs = bool(ctx.bool('dl_src_is_raw_bytes')); fd = bool(ctx.bool('dl_dst_is_raw_bytes'))
  have_src = bool(ctx.bool('dl_src_given')); have_dst = bool(ctx.bool('dl_dst_given'))
  ipform = int(ctx.int('nw_form', 0, 3))
  nws = [10, 1, 2, 0]; nwd = [192, 168, 7, 9]; bits = 24
  def build(canonical):
    m = of.ofp_match()
    m.in_port = 3; m.dl_type = 0x0800; m.nw_proto = 6; m.tp_src = 1234; m.tp_dst = 80
    if have_src: m.dl_src = addrs.EthAddr(src) if (canonical or not fs) else (src if ctx.sym else bytes(src))
    if have_dst: m.dl_dst = addrs.EthAddr(dst) if (canonical or not fd) else (dst if ctx.sym else bytes(dst))
    if canonical or ipform == 0:
      m.nw_src = (addrs.IPAddr(bytes(nws)), bits); m.nw_dst = addrs.IPAddr(bytes(nwd))
    elif ipform == 1:
      m.nw_src = ('10.1.2.0', bits); m.nw_dst = '192.168.7.9'
    elif ipform == 2:
      m.nw_src = '10.1.2.0/24'; m.nw_dst = '192.168.7.9/32'
    else:
      m.set_nw_src(addrs.IPAddr('10.1.2.0'), bits); m.set_nw_dst('192.168.7.9', 32)
    return m
  ref = build(True); m = build(False)
  def wire(x):
    if embed == 'flow_mod': return of.ofp_flow_mod(match=x, xid=7, actions=[of.ofp_action_output(port=2)]).pack()
    if embed == 'flow_removed': return of.ofp_flow_removed(match=x, xid=7).pack()
    return x.pack()
  b_ref = wire(ref); b = wire(m)
  ctx.check('same length as the canonical form', len(b) == len(b_ref))
  if len(b) == len(b_ref): ctx.check('same bytes as the canonical form', ctx.Eq(b, b_ref))
  if embed == 'match':
    m2 = of.ofp_match(); off = m2.unpack(b, 0)
    ctx.check('decode consumes 40 bytes', off == 40)
    ctx.check('decoded match equals the canonical one', m2 == ref)
    ctx.check('decoded match equals the original', m2 == m)
  else:
    cls = of.ofp_flow_mod if embed == 'flow_mod' else of.ofp_flow_removed
    off, o2 = cls.unpack_new(b)
    ctx.check('decode consumes the message', off == len(b))
    ctx.check('decoded embedded match equals the canonical one', o2.match == ref)
  if fs or fd: ctx.witness('raw-bytes-form')
  ctx.witness('roundtrip')


def h_match(ctx, flow_mod, tied=False):
  of = ctx.pox('pox.openflow.libopenflow_01')
  addrs = ctx.pox('pox.lib.addresses')
  And, Or, Not, Ite = ctx.And, ctx.Or, ctx.Not, ctx.Ite
  m = of.ofp_match()
  f = {}
  for attr, kind, off in MATCH_LAYOUT:
    if attr is None or attr == 'wildcards': continue
    if kind == 'eth':
      b = ctx.bytes(attr, 6); f[attr] = list(b); m.__dict__['_' + attr] = addrs.EthAddr(b)
    elif kind == 'ip':
      b = ctx.bytes(attr, 4); f[attr] = list(b); m.__dict__['_' + attr] = addrs.IPAddr(b)
    else:
      v = ctx.int(attr, 0, (1 << (8 * U[kind])) - 1); f[attr] = v; m.__dict__['_' + attr] = v
  wc_in = ctx.int('wildcards', 0, (1 << 22) - 1)
  if tied:
    # quick tier: the wildcard bits of the five mutually independent L2 fields (in_port, dl_vlan, dl_src, dl_dst, dl_vlan_pcp)
    # are tied to one symbolic bit; all prerequisite-related bits and both prefix counters stay free
    b0 = wc_in & 1
    ctx.assume(And(((wc_in >> 1) & 1) == b0, ((wc_in >> 2) & 1) == b0, ((wc_in >> 3) & 1) == b0, ((wc_in >> 20) & 1) == b0))
  m.wildcards = m._normalize_wildcards(wc_in)
  # ---- independent oracle
  W = of
  src_bits = (wc_in >> 8) & 0x3f; dst_bits = (wc_in >> 14) & 0x3f
  wc = (wc_in & ~((0x3f << 8) | (0x3f << 14))) | (Ite(src_bits > 32, 32, src_bits) << 8) | (Ite(dst_bits > 32, 32, dst_bits) << 14)
  def wild(bit): return (wc & bit) != 0
  w_in_port = wild(1 << 0); w_vlan = wild(1 << 1); w_src = wild(1 << 2); w_dst = wild(1 << 3); w_type = wild(1 << 4)
  w_proto = wild(1 << 5); w_tps = wild(1 << 6); w_tpd = wild(1 << 7); w_pcp = wild(1 << 20); w_tos = wild(1 << 21)
  w_nws = ((wc >> 8) & 0x3f) >= 32; w_nwd = ((wc >> 14) & 0x3f) >= 32
  is_ip = And(Not(w_type), f['dl_type'] == 0x0800)
  is_arp = And(Not(w_type), f['dl_type'] == 0x0806)
  is_v6 = And(Not(w_type), f['dl_type'] == 0x86dd)
  proto_ok = And(Not(w_proto), Or(f['nw_proto'] == 1, f['nw_proto'] == 6, f['nw_proto'] == 17))
  tp_ok = And(is_ip, proto_ok)
  if flow_mod:
    # wire wildcards: bits of fields that are ignored (prerequisite unmet) are cleared
    clr_tp = (1 << 6) | (1 << 7)
    clr = Ite(is_ip, Ite(proto_ok, 0, clr_tp),
              Ite(is_arp, clr_tp | (1 << 21),
                  Ite(is_v6, clr_tp | (0x3f << 8) | (0x3f << 14),
                      clr_tp | (1 << 21) | (1 << 5) | (0x3f << 8) | (0x3f << 14))))
    wire_wc = wc & ~clr
  else:
    wire_wc = wc
  def z(cond, v, n):
    return [Ite(cond, x, 0) for x in (be(v, n) if not isinstance(v, list) else v)]
  exp = be(wire_wc, 4)
  exp += z(Not(w_in_port), f['in_port'], 2)
  exp += z(Not(w_src), f['dl_src'], 6) + z(Not(w_dst), f['dl_dst'], 6)
  exp += z(Not(w_vlan), f['dl_vlan'], 2) + z(Not(w_pcp), f['dl_vlan_pcp'], 1) + [0]
  exp += z(Not(w_type), f['dl_type'], 2)
  exp += z(And(is_ip, Not(w_tos)), f['nw_tos'], 1)
  exp += z(And(Or(is_ip, is_arp), Not(w_proto)), f['nw_proto'], 1) + [0, 0]
  exp += z(And(Or(is_ip, is_arp), Not(w_nws)), f['nw_src'], 4)
  exp += z(And(Or(is_ip, is_arp), Not(w_nwd)), f['nw_dst'], 4)
  exp += z(And(tp_ok, Not(w_tps)), f['tp_src'], 2) + z(And(tp_ok, Not(w_tpd)), f['tp_dst'], 2)
  b = m.pack(flow_mod=flow_mod)
  ctx.check('len', len(b) == 40)
  ctx.check('layout', _eq_bytes(ctx, b, exp))
  m2 = of.ofp_match()
  off = m2.unpack(b, 0, flow_mod=flow_mod)
  ctx.check('consumed', off == 40)
  b2 = m2.pack(flow_mod=flow_mod)
  ctx.check('repack', _eq_bytes(ctx, b2, list(b)))
  # equality with the original for matches whose set fields all have their prerequisites (documented validity)
  valid = And(Or(w_tos, is_ip), Or(w_proto, is_ip, is_arp), Or(w_nws, is_ip, is_arp), Or(w_nwd, is_ip, is_arp),
              Or(w_tps, tp_ok), Or(w_tpd, tp_ok))
  if flow_mod:
    # after unwire, ignored fields are wildcarded again; equality is claimed when nothing was ignored
    pass
  ctx.check('equal-when-valid', ctx.Implies(valid, m2 == m))
  m3 = of.ofp_match(); m3.unpack(b2, 0, flow_mod=flow_mod)
  ctx.check('normal form stable', m3 == m2)
  ctx.witness('match')


# ---- O4: Nicira extensions ----------------------------------------------------------------------------
NX_ACTIONS = {
  # class name: (fields {attr: (lo, hi)}, class-valued fields {attr: NXM class name}, expected body length)
  'nx_output_reg': (dict(offset=(0, 1023), nbits=(1, 64), max_len=(0, 0xffff)), dict(reg='NXM_NX_REG0'), 16),
  'nx_reg_move': (dict(nbits=(0, 0xffff), dst_ofs=(0, 0xffff), src_ofs=(0, 0xffff)), dict(dst='NXM_NX_REG1', src='NXM_OF_ETH_DST'), 16),
  'nx_reg_load': (dict(offset=(0, 1023), nbits=(1, 64), value=(0, (1 << 64) - 1)), dict(dst='NXM_NX_TUN_ID'), 16),
  'nx_action_controller': (dict(max_len=(0, 0xffff), controller_id=(0, 0xffff), reason=(0, 255)), {}, 8),
  'nx_action_push_mpls': (dict(ethertype=(0, 0xffff)), {}, 8),
  'nx_action_pop_mpls': (dict(ethertype=(0, 0xffff)), {}, 8),
  'nx_action_mpls_label': (dict(label=(0, 0xffffffff)), {}, 8),
  'nx_action_mpls_tc': (dict(tc=(0, 255)), {}, 8),
  'nx_action_resubmit': (dict(in_port=(0, 0xffff), table=(0, 255)), {}, 8),
  'nx_action_set_tunnel': (dict(tun_id=(0, 0xffffffff)), {}, 8),
  'nx_action_set_tunnel64': (dict(tun_id=(0, (1 << 64) - 1)), {}, 16),
  'nx_action_fin_timeout': (dict(fin_idle_timeout=(0, 0xffff), fin_hard_timeout=(0, 0xffff)), {}, 8),
  'nx_action_learn': (dict(idle_timeout=(0, 0xffff), hard_timeout=(0, 0xffff), priority=(0, 0xffff), cookie=(0, (1 << 64) - 1), flags=(0, 0xffff), table_id=(0, 255),
                           fin_idle_timeout=(0, 0xffff), fin_hard_timeout=(0, 0xffff)), {}, 24),
  'nx_action_learn:spec': (dict(idle_timeout=(0, 0xffff), hard_timeout=(0, 0xffff), priority=(0, 0xffff), cookie=(0, (1 << 64) - 1), flags=(0, 0xffff), table_id=(0, 255),
                                fin_idle_timeout=(0, 0xffff), fin_hard_timeout=(0, 0xffff)), {}, None),     # with the three flow_mod_specs of the class docstring
  'nx_action_bundle': (dict(algorithm=(0, 0xffff), fields=(0, 0xffff), basis=(0, 0xffff)), {}, 24),
  'nx_action_bundle:2': (dict(algorithm=(0, 0xffff), fields=(0, 0xffff), basis=(0, 0xffff)), {}, 32),      # two slave ports: 4 bytes + padding to 8
  'nx_action_exit': ({}, {}, 8),
  'nx_action_dec_ttl': ({}, {}, 8),
}

NXM_FIELDS = [  # (class name, value bytes, maskable, kind)
  ('NXM_OF_IN_PORT', 2, False, 'int'), ('NXM_OF_ETH_DST', 6, True, 'eth'), ('NXM_OF_ETH_SRC', 6, True, 'eth'), ('NXM_OF_ETH_TYPE', 2, False, 'int'),
  ('NXM_OF_VLAN_TCI', 2, True, 'int'), ('NXM_OF_IP_TOS', 1, True, 'int'), ('NXM_OF_IP_PROTO', 1, True, 'int'), ('NXM_OF_IP_SRC', 4, True, 'ip'),
  ('NXM_OF_IP_DST', 4, True, 'ip'), ('NXM_OF_TCP_SRC', 2, True, 'int'), ('NXM_OF_TCP_DST', 2, True, 'int'), ('NXM_OF_UDP_SRC', 2, True, 'int'),
  ('NXM_OF_UDP_DST', 2, True, 'int'), ('NXM_OF_ICMP_TYPE', 1, False, 'int'), ('NXM_OF_ICMP_CODE', 1, False, 'int'), ('NXM_OF_ARP_OP', 2, False, 'int'),
  ('NXM_OF_ARP_SPA', 4, True, 'ip'), ('NXM_OF_ARP_TPA', 4, True, 'ip'), ('NXM_NX_REG0', 4, True, 'int'), ('NXM_NX_REG3', 4, True, 'int'),
  ('NXM_NX_TUN_ID', 8, True, 'int'), ('NXM_NX_ARP_SHA', 6, False, 'eth'), ('NXM_NX_ARP_THA', 6, False, 'eth'), ('NXM_NX_ICMPV6_TYPE', 1, False, 'int'),
  ('NXM_NX_IP_FRAG', 1, True, 'int'), ('NXM_NX_IPV6_LABEL', 4, False, 'int'), ('NXM_NX_IP_ECN', 1, False, 'int'), ('NXM_NX_IP_TTL', 1, False, 'int'),
  ('NXM_NX_COOKIE', 8, True, 'int'), ('NXM_NX_TCP_FLAGS', 2, True, 'int'), ('NXM_NX_TUN_IPV4_SRC', 4, True, 'ip'),
]


def h_nx_action(ctx, name):
  """Nicira vendor actions: header (type 0xffff, len, vendor 0x2320, subtype), length bookkeeping, decode == original, re-encode identical"""
  from props import env
  env.get_core()
  nx = ctx.pox('pox.openflow.nicira'); of = ctx.pox('pox.openflow.libopenflow_01')
  fields, clsfields, bodylen = NX_ACTIONS[name]
  cls = getattr(nx, name.split(':')[0])
  o = cls()
  if name == 'nx_action_learn:spec':
    o.spec.chain(field=nx.NXM_OF_VLAN_TCI, n_bits=12).chain(field=nx.NXM_OF_ETH_SRC, match=nx.NXM_OF_ETH_DST).chain(field=nx.NXM_OF_IN_PORT, output=True)
  elif ':' in name: o.slaves = [nx.NXM_OF_IN_PORT(ctx.int('slave%d' % k, 0, 0xffff)) for k in range(int(name.split(':')[1]))]     # decoded slaves are NXM entries
  vals = {}
  for a, (lo, hi) in fields.items():
    v = ctx.int(a, lo, hi); setattr(o, a, v); vals[a] = v
  for a, cn in clsfields.items(): setattr(o, a, getattr(nx, cn))
  if name == 'nx_action_resubmit': o.subtype = nx.NXAST_RESUBMIT_TABLE
  b = o.pack()
  ctx.check('len(pack) == len(obj)', len(b) == len(o))
  if bodylen is not None: ctx.check('total length as specified', len(b) == 8 + bodylen)
  else: ctx.check('total length is a multiple of 8', len(b) % 8 == 0)
  ctx.check('header: type, length, vendor, subtype', ctx.And(((b[0] << 8) | b[1]) == 0xffff, ((b[2] << 8) | b[3]) == len(b),
            ((b[4] << 24) | (b[5] << 16) | (b[6] << 8) | b[7]) == 0x2320, ((b[8] << 8) | b[9]) == o.subtype))
  o2 = cls()
  off = o2.unpack(b, 0)
  ctx.check('consumed', off == len(b))
  ctx.check('equal', o2 == o)
  for a, v in vals.items(): ctx.check('field %s survives' % a, getattr(o2, a) == v)
  ctx.check('repack', _eq_bytes(ctx, o2.pack(), list(b)))
  def dec(buf, k):
    x = cls(); return x.unpack(buf, k), x
  ctx.check('decoded at a buffer offset: equal', at_offset(ctx, b, dec) == o)
  # and through the generic action-list decoder (as inside a flow_mod)
  offs, acts = of._unpack_actions(b, len(b))
  ctx.check('action list decoder consumes it', offs == len(b) and len(acts) == 1)
  if len(acts) == 1: ctx.check('action list decoder re-encodes identically', _eq_bytes(ctx, acts[0].pack(), list(b)))
  ctx.witness('roundtrip')


def h_nxm(ctx, idx, masked):
  from props import env
  env.get_core()
  nx = ctx.pox('pox.openflow.nicira'); addrs = ctx.pox('pox.lib.addresses')
  name, n, maskable, kind = NXM_FIELDS[idx]
  cls = getattr(nx, name)
  raw = ctx.bytes('value', n)
  mask = ctx.bytes('mask', n) if masked else None
  if masked:
    # OpenFlow/NXM requires value bits outside the mask to be zero
    for v, m in zip(raw, mask): ctx.assume((v & (~m & 0xff)) == 0)
  if name == 'NXM_NX_TCP_FLAGS':
    ctx.assume((raw[0] & 0xf0) == 0)                    # documented: the top 4 bits of TCP flags value and mask must be zero
    if masked: ctx.assume((mask[0] & 0xf0) == 0)
  def conv(bs):
    if kind == 'eth': return addrs.EthAddr(bs)
    if kind == 'ip': return addrs.IPAddr(bs)
    r = 0
    for x in bs: r = (r << 8) | x
    return r
  e = cls(conv(raw), conv(mask) if masked else None) if masked else cls(conv(raw))
  b = e.pack()
  allones = masked and bool(ctx.And(*[(m == 255) for m in mask]))
  has_mask = masked and not allones
  hdr = (b[0] << 24) | (b[1] << 16) | (b[2] << 8) | b[3]
  ctx.check('NXM header: type / has-mask bit / payload length', ctx.And((hdr >> 9) == cls._nxm_type, ((hdr >> 8) & 1) == (1 if has_mask else 0),
            (hdr & 0xff) == (2 * n if has_mask else n)))
  ctx.check('entry length', len(b) == 4 + (2 * n if has_mask else n))
  ctx.check('value bytes', _eq_bytes(ctx, b[4:4 + n], list(raw)))
  if has_mask: ctx.check('mask bytes', _eq_bytes(ctx, b[4 + n:], list(mask)))
  off, e2 = nx.nxm_entry.unpack_new(b, 0)
  ctx.check('consumed', off == len(b))
  ctx.check('decoded class', type(e2) is cls)
  ctx.check('repack', _eq_bytes(ctx, e2.pack(), list(b)))
  ctx.check('decoded value', e2.value == e.value)
  e3 = at_offset(ctx, b, lambda buf, k: nx.nxm_entry.unpack_new(buf, k))
  ctx.check('decoded at a buffer offset: same entry', type(e3) is cls and _eq_bytes(ctx, e3.pack(), list(b)))
  # inside an nx_match
  m = nx.nx_match(); m.append(e); m.append(nx.NXM_OF_ETH_TYPE(0x0800) if name != 'NXM_OF_ETH_TYPE' else nx.NXM_OF_IN_PORT(3))
  mb = m.pack()
  m2 = nx.nx_match(); o2 = m2.unpack(mb, 0, len(mb))
  ctx.check('nx_match consumed', o2 == len(mb))
  ctx.check('nx_match repack', _eq_bytes(ctx, m2.pack(), list(mb)))
  ctx.witness('roundtrip')


def _num(bs):
  r = 0
  for x in bs: r = (r << 8) | x
  return r


def h_nx_msg(ctx, name):
  from props import env
  env.get_core()
  nx = ctx.pox('pox.openflow.nicira'); of = ctx.pox('pox.openflow.libopenflow_01')
  xid = ctx.int('xid', 0, 0xffffffff)
  if name == 'nx_flow_mod_table_id': o = nx.nx_flow_mod_table_id(); o.enable = ctx.bool('enable')
  elif name == 'nx_packet_in_format': o = nx.nx_packet_in_format(); o.format = ctx.int('format', 0, 0xffffffff)
  elif name == 'nx_role_request': o = nx.nx_role_request(); o.role = ctx.int('role', 0, 0xffffffff)
  elif name == 'nx_async_config':
    o = nx.nx_async_config()
    for a in ('packet_in_mask', 'port_status_mask', 'flow_removed_mask', 'packet_in_mask_slave', 'port_status_mask_slave', 'flow_removed_mask_slave'):
      setattr(o, a, ctx.int(a, 0, 0xffffffff))
  elif name.startswith('nx_flow_mod:'):
    # NXT_FLOW_MOD: fixed part symbolic, nx_match of 0..2 entries (padded to 8 bytes), 0..1 actions
    nm = int(name.split(':')[1]); na = int(name.split(':')[2])
    o = nx.nx_flow_mod()
    o.cookie = ctx.int('cookie', 0, (1 << 64) - 1); o.command = ctx.int('command', 0, 255); o.table_id = ctx.int('table_id', 0, 255)
    o.idle_timeout = ctx.int('idle', 0, 0xffff); o.hard_timeout = ctx.int('hard', 0, 0xffff); o.priority = ctx.int('prio', 0, 0xffff)
    o.buffer_id = ctx.int('buffer_id', 0, 0xfffffffe); o.out_port = ctx.int('out_port', 0, 0xffff); o.flags = ctx.int('flags', 0, 0xffff)
    if nm >= 1: o.match.append(nx.NXM_OF_IN_PORT(ctx.int('m_in_port', 0, 0xffff)))
    if nm >= 2: o.match.append(nx.NXM_OF_ETH_TYPE(ctx.int('m_eth_type', 0, 0xffff)))
    if na: o.actions.append(of.ofp_action_output(port=ctx.int('a_port', 0, 0xffef), max_len=0))
  elif name.startswith('nxt_packet_in:'):
    nm = int(name.split(':')[1]); nd = int(name.split(':')[2])
    o = nx.nxt_packet_in()
    o.buffer_id = ctx.int('buffer_id', 0, 0xfffffffe); o.reason = ctx.int('reason', 0, 255); o.table_id = ctx.int('table_id', 0, 255)
    o.cookie = ctx.int('cookie', 0, (1 << 64) - 1)
    o.data = ctx.bytes('data', nd); o.total_len = nd + ctx.int('more', 0, 1000)
    if nm >= 1: o.match.append(nx.NXM_OF_IN_PORT(ctx.int('m_in_port', 0, 0xffff)))
    if nm >= 2: o.match.append(nx.NXM_NX_TUN_ID(ctx.int('m_tun', 0, (1 << 64) - 1)))
  o.xid = xid
  b = o.pack()
  ctx.check('len(pack) == len(obj)', len(b) == len(o))
  if name.startswith('nx_flow_mod:'):
    mlen = sum(len(e.pack()) for e in o.match)
    ctx.check('NXT_FLOW_MOD layout: subtype, cookie, command|table, timeouts, priority, buffer, out_port, flags, match_len', ctx.And(
      _num(b[12:16]) == 13, _num(b[16:24]) == o.cookie, _num(b[24:26]) == (o.table_id << 8 | o.command), _num(b[26:28]) == o.idle_timeout,
      _num(b[28:30]) == o.hard_timeout, _num(b[30:32]) == o.priority, _num(b[32:36]) == o.buffer_id, _num(b[36:38]) == o.out_port,
      _num(b[38:40]) == o.flags, _num(b[40:42]) == mlen, _num(b[42:48]) == 0))
    ctx.check('length = 48 + match padded to 8 + actions', len(b) == 48 + (mlen + 7) // 8 * 8 + sum(len(a) for a in o.actions))
  if name.startswith('nxt_packet_in:'):
    mlen = sum(len(e.pack()) for e in o.match)
    ctx.check('NXT_PACKET_IN layout: subtype, buffer, total_len, reason, table, cookie, match_len', ctx.And(
      _num(b[12:16]) == 17, _num(b[16:20]) == o.buffer_id, _num(b[20:22]) == o.total_len, b[22] == o.reason, b[23] == o.table_id,
      _num(b[24:32]) == o.cookie, _num(b[32:34]) == mlen, _num(b[34:40]) == 0))
    ctx.check('length = 40 + match padded to 8 + 2 + data', len(b) == 40 + (mlen + 7) // 8 * 8 + 2 + len(o.data))
  ctx.check('header: version, type VENDOR, length, xid, vendor id', ctx.And(b[0] == 1, b[1] == 4, ((b[2] << 8) | b[3]) == len(b),
            ((b[4] << 24) | (b[5] << 16) | (b[6] << 8) | b[7]) == xid, ((b[8] << 24) | (b[9] << 16) | (b[10] << 8) | b[11]) == 0x2320))
  off, o2 = type(o).unpack_new(b)
  ctx.check('consumed', off == len(b))
  ctx.check('equal', o2 == o)
  ctx.check('repack', _eq_bytes(ctx, o2.pack(), list(b)))
  ctx.check('decoded at a buffer offset: equal', at_offset(ctx, b, lambda buf, k: type(o).unpack_new(buf, k)) == o)
  ctx.witness('roundtrip')


def h_nx_reuse(ctx, container, how):
  """One nx_match object encoded, changed in place through its documented attribute API (a mask added to / removed from an existing entry,
  which changes the entry's wire size), and encoded again inside the same message: every encoding must equal that of a freshly built
  equivalent message - lengths, match_len, padding and all - and decode back."""
  from props import env
  env.get_core()
  nx = ctx.pox('pox.openflow.nicira'); addrs = ctx.pox('pox.lib.addresses'); of = ctx.pox('pox.openflow.libopenflow_01')
  ip = ctx.bytes('ip', 4); mask = ctx.bytes('mask', 4)
  for v, m_ in zip(ip, mask): ctx.assume((v & (~m_ & 0xff)) == 0)
  ctx.assume(ctx.Not(ctx.And(*[(x == 255) for x in mask])))          # an all-ones mask is encoded as "no mask"
  xid = ctx.int('xid', 0, 0xffffffff)
  def message(match):
    if container == 'flow_mod':
      o = nx.nx_flow_mod(); o.cookie = 5; o.priority = 7; o.actions.append(of.ofp_action_output(port=2, max_len=0))
    else:
      o = nx.nxt_packet_in(); o.data = b'\x01\x02\x03'; o.total_len = 3; o.buffer_id = 9
    o.match = match; o.xid = xid
    return o
  def fresh(with_mask):
    m = nx.nx_match(); m.append(nx.NXM_OF_ETH_TYPE(0x0800))
    m.append(nx.NXM_OF_IP_DST(addrs.IPAddr(ip), addrs.IPAddr(mask)) if with_mask else nx.NXM_OF_IP_DST(addrs.IPAddr(ip)))
    return m
  m = fresh(False)
  o = message(m)
  b1 = o.pack()
  ctx.check('first encoding == fresh message without mask', _eq_bytes(ctx, b1, list(message(fresh(False)).pack())))
  if how == 'mask_attr': m.of_ip_dst_mask = addrs.IPAddr(mask)
  elif how == 'with_mask': m.of_ip_dst_with_mask = (addrs.IPAddr(ip), addrs.IPAddr(mask))
  else: m.of_ip_dst_entry = nx.NXM_OF_IP_DST(addrs.IPAddr(ip), addrs.IPAddr(mask))
  b2 = o.pack()
  ref2 = message(fresh(True)).pack()
  ctx.check('encoding after a mask was added in place == fresh message with mask', _eq_bytes(ctx, b2, list(ref2)))
  ctx.check('header length field == byte count', ((b2[2] << 8) | b2[3]) == len(b2) and len(b2) == len(o))
  off, o2 = type(o).unpack_new(b2)
  ctx.check('decodes: consumed', off == len(b2)); ctx.check('decodes: equal', o2 == o)
  m.of_ip_dst_mask = None
  b3 = o.pack()
  ctx.check('encoding after the mask was removed again == first encoding', _eq_bytes(ctx, b3, list(b1)))
  ctx.witness('roundtrip')


def h_stats_reuse(ctx, side, how):
  """A statistics request / reply object encoded, its body changed through the public attribute (assigned anew, changed in place, a list grown in
  place, a tuple instead of a list), and encoded again: every encoding equals that of a freshly built message - header length field, len() and all."""
  from props import env
  env.get_core()
  of = ctx.pox('pox.openflow.libopenflow_01')
  p1 = ctx.int('port1', 0, 0xffff); p2 = ctx.int('port2', 0, 0xffff); xid = ctx.int('xid', 0, 0xffffffff)
  rx1 = ctx.int('rx1', 0, (1 << 64) - 1); rx2 = ctx.int('rx2', 0, (1 << 64) - 1)
  def consistent(tag, o, b, ref):
    ctx.check(tag + ': bytes == freshly built message', _eq_bytes(ctx, b, list(ref)))
    ctx.check(tag + ': header length field == byte count == len()', ctx.And(((b[2] << 8) | b[3]) == len(b), len(o) == len(b)))
  if side == 'request':
    def fresh(p): return of.ofp_stats_request(xid=xid, body=of.ofp_port_stats_request(port_no=p))
    o = fresh(p1); b1 = o.pack()
    consistent('first', o, b1, fresh(p1).pack())
    if how == 'assign': o.body = of.ofp_port_stats_request(port_no=p2)
    else: o.body.port_no = p2
    b2 = o.pack()
    consistent('after the change', o, b2, fresh(p2).pack())
    off, o2 = of.ofp_stats_request.unpack_new(b2)
    ctx.check('decodes: consumed, equal', off == len(b2) and o2 == o)
    ctx.check('decoded body is the new one', o2.body.port_no == p2)
  else:
    def ps(p, rx): return of.ofp_port_stats(port_no=p, rx_packets=rx)
    def fresh(n, seq=list): return of.ofp_stats_reply(xid=xid, body=seq([ps(p1, rx1), ps(p2, rx2)][:n]))
    if how == 'tuple':
      o = fresh(2, tuple); b2 = o.pack()
    else:
      o = fresh(1); b1 = o.pack()
      consistent('first', o, b1, fresh(1).pack())
      if how == 'append': o.body.append(ps(p2, rx2))
      elif how == 'assign': o.body = [ps(p1, rx1), ps(p2, rx2)]
      else: o.body[0].rx_packets = rx2
      b2 = o.pack()
    ref = of.ofp_stats_reply(xid=xid, body=[ps(p1, rx2)]).pack() if how == 'inplace' else fresh(2).pack()
    consistent('after the change', o, b2, ref)
    off, o2 = of.ofp_stats_reply.unpack_new(b2)
    ctx.check('decodes: consumed', off == len(b2))
    ctx.check('decodes: same entries', len(o2.body) == (1 if how == 'inplace' else 2) and all(a == b for a, b in zip(o2.body, o.body)))
  ctx.witness('roundtrip')


def obligations(tier):
  thorough = tier != 'quick'
  cases = []
  for key, spec in SPECS.items():
    tail = spec.get('tail')
    if tail in ('actions', 'actions+data'):
      cases.append(dict(key=key, ntail=0, tailsel=[]))
    elif tail in ('data', 'body'):
      for n in ([0, 1, 6] if not thorough else [0, 1, 2, 6, 13]): cases.append(dict(key=key, ntail=n))
    elif tail in ('ports', 'queues'):
      for n in ([0, 1, 2] if not thorough else [0, 1, 2, 3]): cases.append(dict(key=key, ntail=n, strs=n))
    elif tail == 'properties':
      cases.append(dict(key=key, ntail=0, tailsel=[]))
      cases.append(dict(key=key, ntail=1, tailsel=['ofp_queue_prop_min_rate']))
      cases.append(dict(key=key, ntail=2, tailsel=['ofp_queue_prop_none', 'ofp_queue_prop_min_rate']))
    elif any(k.startswith('zs') for _, k, _ in spec['fields']):
      for s in range(len(STR_CASES)): cases.append(dict(key=key, strs=s))
    else:
      cases.append(dict(key=key))
  acases = []
  hosts = ['ofp_flow_mod', 'ofp_packet_out', 'ofp_flow_stats']
  for a in ACTION_KEYS:
    for h in hosts[:(3 if thorough else 1)]: acases.append(dict(host=h, sel=[a]))
  pairs = [(a, b) for a in ACTION_KEYS for b in ACTION_KEYS]
  if not thorough: pairs = [p for i, p in enumerate(pairs) if i % 7 == 0]
  for i, (a, b) in enumerate(pairs):
    acases.append(dict(host=hosts[i % 3], sel=[a, b]))
  if thorough:
    for i, a in enumerate(ACTION_KEYS):
      acases.append(dict(host=hosts[i % 3], sel=[a, ACTION_KEYS[(i + 5) % len(ACTION_KEYS)], ACTION_KEYS[(i + 9) % len(ACTION_KEYS)]]))
  lcases = [dict(key=k, n=n) for k, s in SPECS.items() if s.get('list') for n in ([2, 3] if not thorough else [2, 3, 5])]
  BOUNDS[tier] = dict(integer_fields="every integer/address field symbolic over its full wire width", payload_bytes="0..6 (quick) / 0..13 (thorough), all contents",
                      action_lists="0..2 (quick, sampled pairs) / all pairs + triples (thorough) over all 13 action encodings",
                      ports_queues="0..2 / 0..3", stats_lists="1..2 / 1..3 entries", strings="concrete: %r" % (STR_CASES,),
                      match="O3: all 13 field values x wildcard words (thorough: all 2^22; quick: the 5 independent L2 wildcard bits tied together, "
                            "the 7 prerequisite-related bits and both 6-bit prefix counters free), flow_mod flag on/off")
  return [
    Obligation('O1_fixed', h_struct, cases, witnesses=('roundtrip',), desc='every class: layout oracle + round trip, fixed part and simple tails'),
    Obligation('O2_actions', h_actions, acases, witnesses=('roundtrip',), desc='action lists inside flow_mod/packet_out/flow_stats'),
    Obligation('O2_statslists', h_stats_list, lcases, witnesses=('roundtrip',), desc='multi-entry stats reply lists'),
    Obligation('O1_unknown_stats', h_unknown_stats, [dict(n=0), dict(n=5)], witnesses=('roundtrip',),
               desc='stats request of an unregistered type: bytes -> generic container -> identical bytes'),
    Obligation('O4_nx_actions', h_nx_action, [dict(name=k) for k in NX_ACTIONS], witnesses=('roundtrip',),
               desc='Nicira vendor actions: header/length/subtype, decode == original, re-encode identical, also via the action-list decoder'),
    Obligation('O4_nxm', h_nxm, [dict(idx=i, masked=mk) for i, f in enumerate(NXM_FIELDS) for mk in ((False, True) if f[2] and (thorough or i % 3 == 1) else (False,))],
               witnesses=('roundtrip',), desc='NXM entries with and without mask: header type/has-mask/length, value and mask bytes, decode, nx_match round trip'),
    Obligation('O4_nx_messages', h_nx_msg, [dict(name=k) for k in ('nx_flow_mod_table_id', 'nx_packet_in_format', 'nx_role_request', 'nx_async_config', 'nx_flow_mod:0:0', 'nx_flow_mod:1:1',
                                                            'nx_flow_mod:2:0', 'nx_flow_mod:2:1', 'nxt_packet_in:0:0', 'nxt_packet_in:1:3', 'nxt_packet_in:2:1')],
               witnesses=('roundtrip',), desc='Nicira vendor messages: header, vendor id, decode == original, re-encode identical'),
    Obligation('O5_stats_reuse', h_stats_reuse, [dict(side='request', how=h) for h in ('assign', 'inplace')] + [dict(side='reply', how=h) for h in ('append', 'assign', 'inplace', 'tuple')], witnesses=('roundtrip',),
               desc='a statistics request / reply whose body is changed between two encodings (assigned, changed in place, list grown, tuple): each encoding equals a freshly built message'),
    Obligation('O4_nx_reuse', h_nx_reuse, [dict(container=c, how=h) for c in ('flow_mod', 'packet_in') for h in ('mask_attr', 'with_mask', 'entry')], witnesses=('roundtrip',),
               desc='an nx_match changed in place (mask added / removed on an existing entry) between two encodings of the message that carries it'),
    Obligation('O3_match_forms', h_match_forms, [dict(embed=e) for e in ('match', 'flow_mod', 'flow_removed')], witnesses=('roundtrip', 'raw-bytes-form'),
               desc='ofp_match built through the public API with every accepted address input form == the canonical form; decode equality'),
    Obligation('O3_match', h_match, [dict(flow_mod=False, tied=not thorough), dict(flow_mod=True, tied=not thorough)], witnesses=('match',), split=16,
               desc='ofp_match: all fields x all wildcard words vs spec layout with prerequisite zeroing; normal-form round trip'),
  ]
