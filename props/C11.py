"""C11 - the learning-switch control loop forwards like an ideal learning bridge."""
from symx.run import Obligation
from props import env

CLAIM = {
 'technique': "bounded symbolic execution of the real controller + software switch + codec composition with z3 (symx, QF_BV): symbolic MAC addresses (aliasing forks), ingress ports and time gaps",
 'text': "One software switch (3 ports) and the real of_01.Connection running l2_learning are joined by in-memory byte pipes - every OpenFlow message is "
         "really packed, framed and unpacked in both directions, including the handshake. Sequences of up to 3 host frames with fully symbolic source "
         "and destination MACs (aliasing, broadcast/multicast bit, 01:80:c2:00:00:0x and LLDP ethertype are reachable solver-decided cases), symbolic "
         "ingress ports and symbolic time gaps with flow-expiry sweeps are injected. On every path z3 proves the frames emitted per port match the "
         "ideal learning bridge of the statement (unknown/broadcast/multicast -> all other ports; known -> only where the address was seen, the most "
         "recent port unless an older cached flow for that traffic is still installed; never the ingress port, never twice; filtered frames nowhere) "
         "and that no switch buffer is left occupied."
         " Also: several packet-ins outstanding at once (O2_outstanding), a line of 2-3 switches under one controller with per-hop and end-to-end oracles (O3_network), and a burst of 16-30 long frames whose packet-ins arrive in recv()-sized pieces (O4_burst). O5_ip_traffic: UDP / TCP / fragmented IP traffic between two learned hosts with and without switch buffering.",
 'note': "Trusted: CPython, z3, symx proxies/shims (SymDict for the MAC table), scripted byte pipes, virtual clock, the oracle in props/C11.py. 'An older cached "
         "flow is still installed' is read from the switch's flow table (its timeout semantics are C04's subject). Bounded: 1 switch (O1, O2) or a line of 2-3 switches (O3), 2-3 symbolic frames, buffering on/off.",
}
EXPLANATION = ("Real l2_learning.LearningSwitch._handle_PacketIn, of_01.Connection (read/send, handshake handlers), SoftwareSwitch.rx_packet and everything "
               "below it, and the libopenflow codec in both directions executed on symbolic frames; emitted (port, frame) lists compared with the ideal "
               "bridge oracle on every path.")
FUNCTIONS = ["pox.forwarding.l2_learning.LearningSwitch._handle_PacketIn/l2_learning._handle_ConnectionUp", "pox.openflow.of_01.Connection + handshake/default handlers",
             "pox.datapaths.switch.SoftwareSwitch.rx_packet/_rx_flow_mod/_rx_packet_out/send_packet_in/OFConnection", "libopenflow_01 pack/unpack (both directions)"]
BOUNDS = {}
OUTSIDE = ["more than 2 frames in the quick tier / 3 in the thorough tier (scripted histories: 5), more than 3 switches, topologies with loops (they need the spanning tree: C19)", "_flood_delay hold-down (0)", "frames other than the 18-byte / 168-byte test frame shapes (payload bytes concrete)"]
ASSUMPTIONS = ["controller and switch exchange bytes through in-memory pipes pumped to quiescence after every frame; virtual clock shared by all modules"]

NPORTS = 3


class Dummy:
  sending = False
  def send(self, con, data): pass


class Net:
  def __init__(self, ctx, buffers):
    self.ctx = ctx
    core = env.get_core()
    self.of01 = ctx.pox('pox.openflow.of_01'); self.of = ctx.pox('pox.openflow.libopenflow_01'); self.ofp = ctx.pox('pox.openflow')
    self.swm = ctx.pox('pox.datapaths.switch'); self.iow = ctx.pox('pox.lib.ioworker'); self.l2 = ctx.pox('pox.forwarding.l2_learning')
    self.ftm = ctx.pox('pox.openflow.flow_table'); self.pkt = ctx.pox('pox.lib.packet')
    self.clock = env.Clock(1000)
    for m in (self.of01, self.swm, self.ftm, self.l2): m.time = self.clock
    self.of01.deferredSender = Dummy()
    self.of.generate_xid = self.of.xid_generator()
    nexus = self.ofp.OpenFlowNexus()
    core.components['openflow'] = nexus
    core.components['OpenFlowConnectionArbiter'] = self.ofp.OpenFlowConnectionArbiter(default=False)
    self.l2._flood_delay = 0
    self.l2.l2_learning(False)
    self.nexus = nexus
    self.sw = self.swm.SoftwareSwitch(dpid=7, ports=NPORTS, max_buffers=buffers, miss_send_len=128)
    self.w = self.iow.IOWorker(); self.w.socket = env.FakeSocket(eof=False)
    self.sw.set_connection(self.swm.OFConnection(self.w))
    self.sock = env.FakeSocket(eof=False)
    self.con = self.of01.Connection(self.sock)
    self.outs = []
    self.sw.addListenerByName('DpPacketOut', lambda e: self.outs.append((e.port.port_no, e.packet.pack())))
    self.errors = []
    nexus.addListenerByName('ErrorIn', lambda e: self.errors.append(e))
    self.pump()

  def pump(self, hold=False):
    """hold=True: a slow control channel - the switch's messages reach the controller and are processed, the controller's answers stay queued"""
    for _ in range(50):
      moved = False
      if self.sock.sent and not hold:
        chunks = list(self.sock.sent); del self.sock.sent[:]
        for ch in chunks:
          self.w._push_receive_data(ch); moved = True
      if len(self.w.send_buf):
        data = self.w.send_buf; self.w.send_buf = b''
        self.sock.feed(data); moved = True
        while self.sock.chunks:
          if self.con.read() is False: raise RuntimeError("controller dropped the connection")
      if not moved: return
    raise RuntimeError("control channel did not quiesce")


def h_frames(ctx, nframes, buffers, sweep, pad=0, script=None):
  net = Net(ctx, buffers)
  of = net.of
  ctx.check('handshake completed', net.con.connect_time is not None and net.nexus.getConnection(7) is net.con)
  hist = []      # reference: (source mac, port) in arrival order
  meta = {}; keep = []   # reference flow clocks, keyed by entry identity (keep pins the objects so ids are not reused)
  swallowed = False
  for i in range(nframes):
    if script is not None:
      # longer histories over three fixed hosts: who talks to whom is scripted, ingress ports and time gaps stay symbolic
      HOSTS = {'A': b'\x02\x00\x00\x00\x00\x0a', 'B': b'\x02\x00\x00\x00\x00\x0b', 'C': b'\x02\x00\x00\x00\x00\x0c', '*': b'\xff' * 6}
      src = env.tobytes(ctx, list(HOSTS[script[i][0]])); dst = env.tobytes(ctx, list(HOSTS[script[i][1]]))
    else:
      src = ctx.bytes('src%d' % i, 6); dst = ctx.bytes('dst%d' % i, 6)
      ctx.assume((src[0] & 1) == 0)                         # a source address is unicast
    inport = ctx.int('inport%d' % i, 1, NPORTS)
    lldp = ctx.bool('lldp%d' % i) if script is None else False
    et = [0x88, 0xcc] if lldp else [0x08, 0x01]
    raw = env.tobytes(ctx, list(dst) + list(src) + et + [i, 0xaa, 0xbb, 0xcc] + [(7 * k + i) & 0xff for k in range(pad)])
    if sweep:
      net.clock.now = net.clock.now + ctx.int('gap%d' % i, 0, 45)
      net.sw.table.remove_expired_entries()
      net.pump()
    if sweep:
      # an entry may still be installed after the sweep only if neither of its timeouts has elapsed (at the exact instant either is accepted)
      for e in net.sw.table.entries:
        m_ = meta.get(id(e))
        if m_ is None: continue
        ctx.check('frame %d: every installed flow is within its idle and hard timeouts after the expiry sweep' % i,
                  ctx.And(ctx.Or(e.idle_timeout == 0, net.clock.now - m_[1] <= e.idle_timeout), ctx.Or(e.hard_timeout == 0, net.clock.now - m_[0] <= e.hard_timeout)))
    # is an older cached flow for this traffic still installed?
    pm = of.ofp_match.from_packet(net.pkt.ethernet(raw), int(inport), spec_frags=True)
    cached = [e for e in net.sw.table.entries if e.match.matches_with_wildcards(pm, consider_other_wildcards=False)]
    del net.outs[:]
    net.sw.rx_packet(net.pkt.ethernet(raw), int(inport))
    net.pump()
    for e in cached[:1]: meta[id(e)] = (meta.get(id(e), (net.clock.now, 0))[0], net.clock.now)     # traffic refreshes the idle clock of the entry it hit
    for e in net.sw.table.entries:
      if id(e) not in meta: meta[id(e)] = (net.clock.now, net.clock.now); keep.append(e)            # (created, last touched) of newly installed flows
    got = list(net.outs)
    ports = [p for p, _ in got]
    tag = ('[after-drop-flow] ' if swallowed else '') + 'frame %d: ' % i
    ctx.check(tag + 'never out of the ingress port', all(p != int(inport) for p in ports))
    ctx.check(tag + 'never twice on a port', len(ports) == len(set(ports)))
    for p, b in got: ctx.check(tag + 'frame delivered unmodified', ctx.Eq(b, raw))
    filtered = ctx.Or(lldp, ctx.And(dst[0] == 1, dst[1] == 0x80, dst[2] == 0xc2, dst[3] == 0, dst[4] == 0, dst[5] <= 0x0f))
    others = [p for p in range(1, NPORTS + 1) if p != int(inport)]
    hist.append((list(src), inport))      # a bridge learns the source before it looks the destination up
    # where has dst been seen as a source (most recent last)?
    where = [port for (m, port) in hist if bool(ctx.Eq(env.tobytes(ctx, m), dst))]
    if cached:
      ctx.witness('cached-flow')
      outp = [a.port for a in cached[0].actions if isinstance(a, of.ofp_action_output)]
      if not outp: swallowed = True       # a cached *drop* flow (installed without in_port) consumed the frame: the controller did not see it (known finding)
      ctx.check(tag + 'cached flow decides', sorted(ports) == sorted(int(x) for x in outp if int(x) != int(inport)))
      if where: ctx.check(tag + 'cached flow delivers only where dst was seen', all(p in [int(x) for x in where] for p in ports))
    elif bool(filtered):
      ctx.witness('filtered')
      ctx.check(tag + 'link-local / LLDP frame is not forwarded', ports == [])
    elif bool((dst[0] & 1) == 1) or not where:
      ctx.witness('flood')
      ctx.check(tag + 'unknown / broadcast / multicast goes to every other port', sorted(ports) == others)
    else:
      ctx.witness('unicast-known')
      latest = int(where[-1])
      ctx.check(tag + 'known unicast goes exactly to the most recent port (nowhere if that is the ingress)', ports == ([latest] if latest != int(inport) else []))
    ctx.check(tag + 'no OpenFlow error was raised', not net.errors)
    ctx.check(tag + 'no packet buffer left occupied', all(x is None for x in net.sw._packet_buffer))
  ctx.witness('done')


class MultiNet:
  """nsw software switches in a line (a tree, so flooding terminates), each with its own control connection to the one controller running
  l2_learning; every OpenFlow message is really packed, framed and unpacked.  Ports 1..NPORTS per switch; the last port(s) carry the
  inter-switch cables, the others are host-facing."""
  def __init__(self, ctx, nsw, buffers):
    self.ctx = ctx
    core = env.get_core()
    self.of01 = ctx.pox('pox.openflow.of_01'); self.of = ctx.pox('pox.openflow.libopenflow_01'); self.ofp = ctx.pox('pox.openflow')
    self.swm = ctx.pox('pox.datapaths.switch'); self.iow = ctx.pox('pox.lib.ioworker'); self.l2 = ctx.pox('pox.forwarding.l2_learning')
    self.ftm = ctx.pox('pox.openflow.flow_table'); self.pkt = ctx.pox('pox.lib.packet')
    self.clock = env.Clock(1000)
    for m in (self.of01, self.swm, self.ftm, self.l2): m.time = self.clock
    self.of01.deferredSender = Dummy()
    self.of.generate_xid = self.of.xid_generator()
    self.of01.Connection.ID = 0
    nexus = self.ofp.OpenFlowNexus()
    core.components['openflow'] = nexus
    core.components['OpenFlowConnectionArbiter'] = self.ofp.OpenFlowConnectionArbiter(default=False)
    self.l2._flood_delay = 0
    self.l2.l2_learning(False)
    self.nexus = nexus
    self.nodes = []; self.outs = []; self.errors = []
    nexus.addListenerByName('ErrorIn', lambda e: self.errors.append(e))
    for i in range(nsw):
      sw = self.swm.SoftwareSwitch(dpid=7 + i, ports=NPORTS, max_buffers=buffers, miss_send_len=128)
      w = self.iow.IOWorker(); w.socket = env.FakeSocket(eof=False)
      sw.set_connection(self.swm.OFConnection(w))
      sock = env.FakeSocket(eof=False)
      con = self.of01.Connection(sock)
      sw.addListenerByName('DpPacketOut', lambda e, i=i: self.outs.append((i, e.port.port_no, e.packet.pack())))
      self.nodes.append((sw, w, sock, con))
    # cables: s0.p3 - s1.p3 for two switches; s0.p3 - s1.p2, s1.p3 - s2.p3 for three
    self.links = {}
    if nsw == 2: pairs = [((0, 3), (1, 3))]
    else: pairs = [((0, 3), (1, 2)), ((1, 3), (2, 3))]
    for a, b in pairs: self.links[a] = b; self.links[b] = a
    self.host_ports = [(i, p) for i in range(nsw) for p in range(1, NPORTS + 1) if (i, p) not in self.links]
    self.pump()

  def pump(self):
    for _ in range(80):
      moved = False
      for (sw, w, sock, con) in self.nodes:
        if sock.sent:
          chunks = list(sock.sent); del sock.sent[:]
          for ch in chunks: w._push_receive_data(ch); moved = True
        if len(w.send_buf):
          data = w.send_buf; w.send_buf = b''
          sock.feed(data); moved = True
          while sock.chunks:
            if con.read() is False: raise RuntimeError("controller dropped the connection")
      if not moved: return
    raise RuntimeError("control channels did not quiesce")


def h_network(ctx, nsw, nframes, buffers):
  """frames enter at symbolic host ports of a line of switches; every hop is judged by the ideal-bridge oracle of that switch (its own
  learning history) and the journey as a whole by end-to-end clauses"""
  net = MultiNet(ctx, nsw, buffers)
  of = net.of
  for i, (sw, w, sock, con) in enumerate(net.nodes):
    ctx.check('handshake of switch %d completed' % i, con.connect_time is not None and net.nexus.getConnection(7 + i) is con)
  hist = {i: [] for i in range(nsw)}          # per switch: (source mac, port) in arrival order
  sightings = []                              # (source mac, host port) of every injected frame
  swallowed = False                           # a cached *drop* flow (installed without in_port) consumed a frame the controller never saw: known finding
  for f in range(nframes):
    src = ctx.bytes('src%d' % f, 6); dst = ctx.bytes('dst%d' % f, 6)
    ctx.assume((src[0] & 1) == 0)
    hp = net.host_ports[int(ctx.int('ingress%d' % f, 0, len(net.host_ports) - 1))]
    raw = env.tobytes(ctx, list(dst) + list(src) + [0x08, 0x01, f, 0xaa, 0xbb, 0xcc])
    filtered = ctx.And(dst[0] == 1, dst[1] == 0x80, dst[2] == 0xc2, dst[3] == 0, dst[4] == 0, dst[5] <= 0x0f)
    queue = [(hp[0], hp[1])]; delivered = []; hops = 0; cached_hit = False; all_flood = True
    sightings.append((list(src), hp))
    while queue:
      s_, inport = queue.pop(0); hops += 1
      if hops > 2 * nsw + 2: break
      sw = net.nodes[s_][0]
      pm = of.ofp_match.from_packet(net.pkt.ethernet(raw), inport, spec_frags=True)
      cached = [e for e in sw.table.entries if e.match.matches_with_wildcards(pm, consider_other_wildcards=False)]
      del net.outs[:]
      sw.rx_packet(net.pkt.ethernet(raw), inport)
      net.pump()
      got = list(net.outs)
      tag = ('[after-drop-flow] ' if swallowed else '') + 'frame %d at switch %d: ' % (f, s_)
      ctx.check(tag + 'only the switch that received the frame emits it', all(x[0] == s_ for x in got))
      ports = [p for _, p, _ in got]
      ctx.check(tag + 'never out of the ingress port', all(p != inport for p in ports))
      ctx.check(tag + 'never twice on a port', len(ports) == len(set(ports)))
      for _, p, b in got: ctx.check(tag + 'frame delivered unmodified', ctx.Eq(b, raw))
      others = [p for p in range(1, NPORTS + 1) if p != inport]
      hist[s_].append((list(src), inport))
      where = [port for (m, port) in hist[s_] if bool(ctx.Eq(env.tobytes(ctx, m), dst))]
      if cached:
        ctx.witness('cached-flow'); cached_hit = True; all_flood = False
        outp = [a.port for a in cached[0].actions if isinstance(a, of.ofp_action_output)]
        if not outp: swallowed = True
        ctx.check(tag + 'cached flow decides', sorted(ports) == sorted(int(x) for x in outp if int(x) != inport))
      elif bool(filtered):
        ctx.witness('filtered'); all_flood = False
        ctx.check(tag + 'link-local frame is not forwarded', ports == [])
      elif bool((dst[0] & 1) == 1) or not where:
        ctx.witness('flood')
        ctx.check(tag + 'unknown / broadcast / multicast goes to every other port', sorted(ports) == others)
      else:
        ctx.witness('unicast-known'); all_flood = False
        latest = int(where[-1])
        ctx.check(tag + 'known unicast goes exactly to the most recent port (nowhere if that is the ingress)', ports == ([latest] if latest != inport else []))
      for p in ports:
        if (s_, p) in net.links:
          peer = net.links[(s_, p)]; queue.append(peer)
          if peer[0] != s_: ctx.witness('crossed-a-link')
        else: delivered.append((s_, p))
    tag = ('[after-drop-flow] ' if swallowed else '') + 'frame %d end to end: ' % f
    ctx.check(tag + 'the journey ends (no forwarding loop)', not queue)
    ctx.check(tag + 'no host port receives the frame twice, the sending host never', len(delivered) == len(set(delivered)) and hp not in delivered)
    if all_flood and not cached_hit:
      ctx.check(tag + 'a frame every switch floods reaches every other host port of the network', sorted(delivered) == sorted(x for x in net.host_ports if x != hp))
    seen_at = [loc for (m, loc) in sightings[:-1] if bool(ctx.Eq(env.tobytes(ctx, m), dst))]
    if seen_at and not cached_hit and not bool(filtered) and bool((dst[0] & 1) == 0) and all(loc == seen_at[0] for loc in seen_at) and seen_at[0] != hp \
       and not any(bool(ctx.Eq(env.tobytes(ctx, m), src)) and loc != hp for (m, loc) in sightings[:-1]) \
       and not any(bool(ctx.Eq(env.tobytes(ctx, m), dst)) and loc == hp for (m, loc) in sightings):
      # the destination has only ever been seen at one host port, the sender has not moved either: the frame arrives there, exactly once
      ctx.witness('end-to-end-unicast')
      ctx.check(tag + 'a frame to a host that never moved is delivered to that host', delivered.count(seen_at[0]) == 1)
    ctx.check(tag + 'no OpenFlow error was raised', not net.errors)
    for i, (sw, w, sock, con) in enumerate(net.nodes):
      ctx.check(tag + 'no packet buffer left occupied on switch %d' % i, all(x is None for x in sw._packet_buffer))
  ctx.witness('done')


def h_burst(ctx, nburst, buffers):
  """a burst: `nburst` long frames of one known conversation arrive back to back before the controller reads its socket, so their packet-ins
  (146 bytes each) reach the controller in recv()-sized pieces that end in the middle of a message - also in the middle of a header.  Every
  frame is still forwarded once, to the port where its destination was seen, in order; no buffer stays occupied; the connection survives."""
  net = Net(ctx, buffers)
  A = b'\x02\x00\x00\x00\x00\x0a'; B = b'\x02\x00\x00\x00\x00\x0b'
  pa = ctx.int('portA', 1, NPORTS); pb = ctx.int('portB', 1, NPORTS)
  ctx.assume(pa != pb)
  def frame(i, s, d, tag): return env.tobytes(ctx, list(d) + list(s) + [0x08, 0x01, i, tag] + [(7 * k + i) & 0xff for k in range(152)])
  net.sw.rx_packet(net.pkt.ethernet(frame(0, A, b'\xff' * 6, 0)), int(pa)); net.pump()       # A announces itself
  del net.outs[:]
  raws = []
  for i in range(nburst):
    raw = frame(1 + i, B, A, ctx.int('tag%d' % i, 0, 255) if i in (0, nburst - 1) else i); raws.append(raw)
    net.sw.rx_packet(net.pkt.ethernet(raw), int(pb))                                        # no pump: the controller has not read yet
  ctx.check('the packet-ins of the burst are waiting in one piece longer than a recv() buffer', len(net.w.send_buf) > 2048 or nburst < 15)
  net.pump()
  ctx.check('the controller kept the connection', net.nexus.getConnection(7) is net.con and not net.con.disconnected)
  ctx.check('every frame of the burst was forwarded exactly once, to the port where its destination was seen, in order',
            len(net.outs) == nburst and all(p == int(pa) and bool(ctx.Eq(b, r)) for (p, b), r in zip(net.outs, raws)))
  ctx.check('no OpenFlow error was raised', not net.errors)
  ctx.check('no packet buffer left occupied', all(x is None for x in net.sw._packet_buffer))
  ctx.witness('done')


def h_delayed(ctx, buffers, nheld):
  """Several packet-ins outstanding at once (a control channel slower than the data plane): three hosts are learned in lock step, then
  `nheld` frames of different conversations miss the table back to back before any answer of the controller reaches the switch; the answers
  then arrive in order.  Each frame must still be delivered exactly like the bridge decides, each to its own destination, and no buffer may
  stay occupied (a buffer id names one stored packet until it is used)."""
  net = Net(ctx, buffers)
  HOSTS = {'A': b'\x02\x00\x00\x00\x00\x0a', 'B': b'\x02\x00\x00\x00\x00\x0b', 'C': b'\x02\x00\x00\x00\x00\x0c', '*': b'\xff' * 6}
  port = {h: ctx.int('port' + h, 1, NPORTS) for h in 'ABC'}
  def frame(i, s, d): return bytes(HOSTS[d] + HOSTS[s] + bytes([0x08, 0x01, i, 0xaa, 0xbb, 0xcc]))
  for i, (s, d) in enumerate([('A', '*'), ('B', 'A'), ('C', 'A')]):
    net.sw.rx_packet(net.pkt.ethernet(frame(i, s, d)), int(port[s])); net.pump()
  del net.outs[:]
  held = [('A', 'B'), ('A', 'C'), ('B', 'C')][:nheld]
  raws = []
  for i, (s, d) in enumerate(held):
    raw = frame(10 + i, s, d); raws.append(raw)
    net.sw.rx_packet(net.pkt.ethernet(raw), int(port[s])); net.pump(hold=True)
  ctx.check('nothing is forwarded before the controller has answered', net.outs == [])
  if buffers >= nheld: ctx.check('every outstanding packet-in holds its own buffer', sum(1 for x in net.sw._packet_buffer if x is not None) == nheld)
  net.pump()
  for raw, (s, d) in zip(raws, held):
    got = [p for p, b in net.outs if bytes(b) == raw]
    exp = [int(port[d])] if int(port[d]) != int(port[s]) else []
    ctx.check('held frame %s->%s is delivered exactly where %s was seen' % (s, d, d), got == exp)
  ctx.check('nothing else is emitted', all(any(bytes(b) == r for r in raws) for p, b in net.outs))
  ctx.check('no OpenFlow error was raised', not net.errors)
  ctx.check('no packet buffer left occupied', all(x is None for x in net.sw._packet_buffer))
  ctx.witness('done')


def h_ip_traffic(ctx, buffers, kind):
  """IP traffic between two learned hosts - a UDP datagram, its first fragment (MF set, offset 0), a later fragment, a TCP segment - twice in a
  row: every frame is delivered exactly once to the port where the destination was seen (the first time through the controller, the second
  time through whatever flow was installed), the control loop settles, no buffer stays occupied"""
  net = Net(ctx, buffers)
  A = b'\x02\x00\x00\x00\x00\x0a'; B = b'\x02\x00\x00\x00\x00\x0b'
  pa = ctx.int('portA', 1, NPORTS); pb = ctx.int('portB', 1, NPORTS)
  ctx.assume(pa != pb)
  def plain(i, s, d): return bytes(d + s + bytes([0x08, 0x01, i, 0xaa, 0xbb, 0xcc]))
  net.sw.rx_packet(net.pkt.ethernet(plain(0, A, b'\xff' * 6)), int(pa)); net.pump()
  net.sw.rx_packet(net.pkt.ethernet(plain(1, B, A)), int(pb)); net.pump()
  del net.outs[:]
  sp = ctx.int('sport', 1024, 0xffff); dp = ctx.int('dport', 1024, 0xffff)
  for v in (4789, 5353): ctx.assume(ctx.And(sp != v, dp != v))
  pay = [0x55] * 16
  if kind == 'tcp':
    seg = [sp >> 8, sp & 255, dp >> 8, dp & 255] + [0] * 8 + [0x50, 0x02, 0, 0, 0, 0, 0, 0] + pay; proto = 6; fl = [0x40, 0]
  else:
    ulen = 8 + len(pay) + (64 if kind == 'udp_frag1' else 0)
    seg = [sp >> 8, sp & 255, dp >> 8, dp & 255, ulen >> 8, ulen & 255, 0, 0] + pay; proto = 17
    fl = {'udp': [0x40, 0], 'udp_frag1': [0x20, 0], 'udp_frag2': [0x00, 3]}[kind]
  ip = [0x45, 0, 0, 20 + len(seg), 0, 7] + fl + [64, proto, 0, 0, 10, 0, 0, 1, 10, 0, 0, 2]
  raw = env.tobytes(ctx, list(B) + list(A) + [0x08, 0x00] + ip + seg)
  for rnd in (1, 2):
    net.sw.rx_packet(net.pkt.ethernet(raw), int(pa)); net.pump()
    ports = [p for p, b in net.outs]
    ctx.check('round %d: delivered exactly once, to the port where the destination was seen' % rnd, ports == [int(pb)])
    del net.outs[:]
  ctx.check('no OpenFlow error was raised', not net.errors)
  ctx.check('no packet buffer left occupied', all(x is None for x in net.sw._packet_buffer))
  ctx.witness('done')


def obligations(tier):
  thorough = tier != 'quick'
  cases = [dict(nframes=1, buffers=0, sweep=False), dict(nframes=2, buffers=0, sweep=False), dict(nframes=2, buffers=2, sweep=False),
           dict(nframes=2, buffers=2, sweep=True), dict(nframes=2, buffers=1, sweep=True),
           dict(nframes=2, buffers=0, sweep=False, pad=150), dict(nframes=2, buffers=1, sweep=False, pad=150)]   # frames longer than miss_send_len
  # A announces itself, B and C talk to A (two flows installed back to back), A moves, silence, B talks to A again
  cases.append(dict(nframes=5, buffers=2, sweep=True, script=['A*', 'BA', 'CA', 'A*', 'BA']))
  # B talks to A (flow cached), B moves to another (symbolic) port and talks to A again, then C talks to B: B's move must have been learned
  cases.append(dict(nframes=4, buffers=2, sweep=False, script=['A*', 'BA', 'BA', 'CB']))
  if thorough: cases += [dict(nframes=4, buffers=0, sweep=True, script=['A*', 'BA', 'BA', 'AB']), dict(nframes=5, buffers=0, sweep=True, script=['A*', 'BA', 'AB', 'B*', 'AB']), dict(nframes=3, buffers=2, sweep=False), dict(nframes=3, buffers=0, sweep=False), dict(nframes=3, buffers=2, sweep=True)]
  BOUNDS[tier] = dict(switches=1, ports=NPORTS, frames=[c['nframes'] for c in cases], macs="48-bit symbolic source/destination per frame (all aliasing patterns)",
                      ingress="symbolic port", gaps="0..45 s symbolic with an expiry sweep before each frame (sweep cases)", buffering=sorted({c['buffers'] for c in cases}), frame_lengths=[18, 168], miss_send_len=128)
  dl = [dict(buffers=b, nheld=k) for b in (0, 1, 2, 3) for k in ((2, 3) if thorough else (2,))]
  nw = [dict(nsw=2, nframes=2, buffers=2), dict(nsw=2, nframes=2, buffers=0)] + ([dict(nsw=3, nframes=2, buffers=1), dict(nsw=2, nframes=3, buffers=2)] if thorough else [])
  ipt = [dict(buffers=b, kind=k) for b in (0, 2) for k in ('udp', 'udp_frag1', 'udp_frag2', 'tcp')]
  return [Obligation('O5_ip_traffic', h_ip_traffic, ipt, witnesses=('done',), max_decisions=40000,
                     desc='UDP / TCP / fragmented IP traffic between two learned hosts, with and without switch buffering'),
          Obligation('O4_burst', h_burst, [dict(nburst=16, buffers=20), dict(nburst=16, buffers=4)] + ([dict(nburst=30, buffers=30)] if thorough else []), witnesses=('done',), max_decisions=40000,
                     desc='a burst of 16 (30) long frames whose packet-ins reach the controller in recv()-sized pieces: all forwarded once, in order'),
          Obligation('O3_network', h_network, nw, witnesses=('done', 'flood', 'unicast-known', 'filtered', 'crossed-a-link', 'end-to-end-unicast'), max_decisions=60000,
                     desc='a line of 2 (3) switches under one controller: every hop == the ideal bridge of that switch; end to end: no loop, no duplicate, floods reach every host port, a known host is reached'),
          Obligation('O2_outstanding', h_delayed, dl, witnesses=('done',), max_decisions=40000,
                     desc='several packet-ins outstanding at once (slow control channel), answered in order: each frame to its own destination, buffers released'),
          Obligation('O1_frames', h_frames, cases, witnesses=('done', 'flood', 'unicast-known', 'filtered', 'cached-flow'), max_decisions=40000,
                     desc='frames emitted per port == ideal learning bridge; buffers never leak')]
