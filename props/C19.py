"""C19 - discovered topology is the physical one; flooding is pruned to a tree."""
from symx.run import Obligation
from props import env

CLAIM = {
 'technique': "bounded symbolic execution of the real discovery / spanning-tree code with z3 (symx): symbolic dpids, ports and timestamps for the probe path; solver-enumerated link sets for the forest",
 'text': "(O1) A discovery probe built by the real LLDPSender for a symbolic 64-bit dpid and 16-bit port is packed into a packet_out, decoded as the switch "
         "would, wrapped into a packet_in arriving on a symbolic (dpid', port') and handled by the real Discovery: the adjacency gains exactly "
         "Link(dpid, port, dpid', port') (unless both ends coincide) with one LinkEvent. (O2) From adjacencies of up to 2 links with symbolic timestamps, "
         "one more event - a probe (new or refreshing), an expiry sweep at a symbolic instant, a ConnectionDown for a symbolic dpid - changes the "
         "adjacency and emits add/remove LinkEvents exactly as the reference says. (O3) For every set of directed links over 3 (thorough: 4) switches "
         "the real _calc_spanning_tree/_update_tree leave NO_FLOOD cleared on a set of inter-switch ports such that a frame flooded from any switch "
         "reaches every switch of its bidirectional component exactly once, all host-facing ports keep flooding, and this still holds after one link "
         "is toggled."
         " Also: a failing second LinkEvent listener, expiry through a model of the recurring timer, and a switch that reboots or merely flaps its control channel (port configuration retained, topology changed meanwhile, both listener orders). O1_foreign_probe: MAC chassis ids and binary system descriptions; a self-loop cable in O3_forest.",
 'note': "O3 is bounded exhaustive enumeration of graphs driven by the solver (all inputs are presence bits). Trusted: CPython, z3, symx proxies "
         "incl. char-level text for the 'dpid:<hex>' / port-number TLVs, stub connections/nexus, the flood simulator in props/C19.py.",
}
EXPLANATION = ("Real LLDPSender._create_discovery_packet/create_packet_out, lldp TLV pack/parse, Discovery._handle_openflow_PacketIn/_expire_links/"
               "_delete_links/_handle_openflow_ConnectionDown/is_edge_port and spanning_tree._calc_spanning_tree/_update_tree executed with symbolic "
               "identifiers/timestamps or solver-enumerated link sets; reference adjacency / flood simulation compared on every path.")
FUNCTIONS = ["pox.openflow.discovery.LLDPSender._create_discovery_packet/create_packet_out", "Discovery._handle_openflow_PacketIn/_expire_links/_delete_links/"
             "_handle_openflow_ConnectionDown/is_edge_port", "pox.lib.packet.lldp (chassis_id/port_id/ttl/system_description/end TLVs) pack+parse",
             "pox.openflow.spanning_tree._calc_spanning_tree/_update_tree/_handle_LinkEvent"]
BOUNDS = {}
OUTSIDE = ["graphs on more than 4 switches, more than one link per ordered pair in the quick tier", "_hold_down and the coalescing timers", "spanning_forest.py",
           "the LLDP send timer (cycle scheduling)"]
ASSUMPTIONS = ["connections are stubs exposing dpid/ports/connect_time/send; O3 fills Discovery.adjacency directly with Link tuples"]


class Con:
  def __init__(self, dpid, ports=()):
    self.dpid = dpid; self.sent = []; self.connect_time = 1; self.ports = {}
    for (no, hw) in ports: self.ports[no] = P(no, hw)
  def send(self, m): self.sent.append(m)


class P:
  def __init__(self, no, hw): self.port_no = no; self.hw_addr = hw; self.config = 0


class TimerModel:
  """recoco.Timer as seen by its user: fire() is one expiry of the timer; a self-stoppable timer whose callback returns the literal False stops"""
  made = []
  def __init__(self, timeToWake, callback, absoluteTime=False, recurring=False, args=(), kw={}, scheduler=None, started=True, selfStoppable=True):
    self.cb = callback; self.args = args; self.kw = kw; self.recurring = recurring; self.self_stoppable = selfStoppable; self.alive = True
    self.interval = timeToWake
    TimerModel.made.append(self)
  def cancel(self): self.alive = False
  def fire(self):
    if not self.alive: return False
    rv = self.cb(*self.args, **self.kw)
    if (self.self_stoppable and rv is False) or not self.recurring: self.alive = False
    return True


def expiry_timer(disc):
  """the recurring timer Discovery created for its link-timeout check"""
  for t in TimerModel.made:
    if getattr(t.cb, '__self__', None) is disc and getattr(t.cb, '__name__', '') == '_expire_links': return t
  return None


def setup(ctx, dpids):
  core = env.get_core()
  of = ctx.pox('pox.openflow.libopenflow_01'); ofp = ctx.pox('pox.openflow'); D = ctx.pox('pox.openflow.discovery')
  recoco = ctx.pox('pox.lib.recoco.recoco')
  clock = env.Clock(1000)
  D.time = clock
  del TimerModel.made[:]
  D.Timer = TimerModel
  nexus = ofp.OpenFlowNexus()
  core.components['openflow'] = nexus
  cons = {}
  for d in dpids:
    c = Con(d); nexus._connections[d] = c; cons[id(c)] = c
  disc = D.Discovery(install_flow=False, explicit_drop=False)
  core.components['openflow_discovery'] = disc
  events = []
  disc.addListenerByName('LinkEvent', lambda e: events.append((e.added, e.link)))
  return core, of, ofp, D, nexus, disc, clock, events


def probe(ctx, of, ofp, D, nexus, disc, src_dpid, src_port, dst_dpid, dst_port):
  """the full path of one probe: controller builds the packet_out, the switch decodes it, the frame comes back in a packet_in"""
  addrs = ctx.pox('pox.lib.addresses')
  sender = disc._sender
  po_bytes = sender.create_packet_out(src_dpid, src_port, addrs.EthAddr(b'\x02\x00\x00\x00\x00\x09'))
  _, po = of.ofp_packet_out.unpack_new(po_bytes)
  frame = po.data
  ok_action = len(po.actions) == 1 and bool(po.actions[0].port == src_port)
  pin = of.ofp_packet_in(in_port=dst_port, data=frame, reason=0)
  _, pin2 = of.ofp_packet_in.unpack_new(pin.pack())
  con = nexus.getConnection(dst_dpid)
  ev = ofp.PacketIn(con, pin2)
  r = disc._handle_openflow_PacketIn(ev)
  return ok_action, r


def h_probe(ctx, digits):
  """digits: number of hex digits of the source dpid (the numeral's length is forked by the engine; fixing it per case spreads the work)"""
  lo = 0 if digits == 1 else 1 << (4 * (digits - 1))
  d1 = ctx.int('dpid1', lo, (1 << (4 * digits)) - 1)
  d2 = ctx.int('dpid2', 0, (1 << 64) - 1)
  p1 = ctx.int('port1', 1, 0xff00); p2 = ctx.int('port2', 1, 0xff00)
  core, of, ofp, D, nexus, disc, clock, events = setup(ctx, [d1, d2])
  ok_action, r = probe(ctx, of, ofp, D, nexus, disc, d1, p1, d2, p2)
  ctx.check('packet_out outputs on the probed port', ok_action)
  same = ctx.And(d1 == d2, p1 == p2)
  links = list(disc.adjacency.keys())
  if bool(same):
    ctx.check('own probe ignored', len(links) == 0 and not events)
  else:
    ctx.check('exactly one link learned', len(links) == 1)
    if len(links) == 1:
      l = links[0]
      ctx.check('link is (dpid, port) -> (dpid2, port2)', ctx.And(l.dpid1 == d1, l.port1 == p1, l.dpid2 == d2, l.port2 == p2))
    ctx.check('one LinkEvent(add)', len(events) == 1 and events[0][0] is True)
  ctx.witness('probe')


def h_foreign_probe(ctx, form):
  """probes in the other encodings the component says it understands (it has to interoperate with probes it did not build itself): 'mac' - no
  system description, the chassis id is a MAC holding a dpid < 2^48; 'raw8' - the system description is the 8-byte big-endian dpid (FlowVisor
  style; any 64-bit value: the bytes need not be text); 'binary' - a system description of arbitrary bytes beside a usable 'dpid:' chassis id.
  The PacketIn handler raises nothing and the adjacency gains exactly the link the probe travelled."""
  d1 = 0x2a5 if form == 'binary' else ctx.int('dpid1', 1, (1 << 48) - 1 if form != 'raw8' else (1 << 64) - 1)
  d2 = ctx.int('dpid2', 0, (1 << 64) - 1)
  p1 = ctx.int('port1', 1, 0xff00); p2 = ctx.int('port2', 1, 0xff00)
  ctx.assume(ctx.Not(ctx.And(d1 == d2, p1 == p2)))
  # (the decoder is lenient by design: a 2-byte port id made of ASCII digits reads as a decimal text, 8 raw bytes that spell a 'dpid:' line read as text)
  ctx.assume(ctx.Not(ctx.And((p1 >> 8) >= 0x30, (p1 >> 8) <= 0x39, (p1 & 255) >= 0x30, (p1 & 255) <= 0x39)))
  if form == 'raw8':
    ctx.assume(ctx.And(*[((d1 >> (8 * k)) & 255) != 10 for k in range(8)]))
    ctx.assume((d1 >> 24) != 0x647069643a)
  core, of, ofp, D, nexus, disc, clock, events = setup(ctx, [d1, d2])
  def tlv(t, body): return [(t << 1) | (len(body) >> 8), len(body) & 255] + body
  def be(v, n): return [(v >> (8 * (n - 1 - i))) & 0xff for i in range(n)]
  if form == 'mac': chassis = tlv(1, [4] + be(d1, 6)); sysdesc = []
  elif form == 'raw8': chassis = tlv(1, [7] + list(b'sw')); sysdesc = tlv(6, be(d1, 8))
  else:
    chassis = tlv(1, [7] + list(b'dpid:2a5')); sysdesc = tlv(6, list(ctx.bytes('sysdesc', 5)))
  frame = [0x01, 0x23, 0x20, 0, 0, 1, 2, 0, 0, 0, 0, 9, 0x88, 0xcc] + chassis + tlv(2, [2] + be(p1, 2)) + tlv(3, [0, 120]) + sysdesc + tlv(0, [])
  from props import env
  pin = of.ofp_packet_in(in_port=p2, data=env.tobytes(ctx, frame), reason=0)
  _, pin2 = of.ofp_packet_in.unpack_new(pin.pack())
  ev = ofp.PacketIn(nexus.getConnection(d2), pin2)
  disc._handle_openflow_PacketIn(ev)
  links = list(disc.adjacency.keys())
  ctx.check('exactly one link learned', len(links) == 1)
  if len(links) == 1:
    l = links[0]
    ctx.check('link is (dpid, port) -> (dpid2, port2)', ctx.And(l.dpid1 == d1, l.port1 == p1, l.dpid2 == d2, l.port2 == p2))
  ctx.check('one LinkEvent(add)', len(events) == 1 and events[0][0] is True)
  ctx.witness('probe')


def h_adjacency(ctx, npre, op):
  d = [ctx.int('dpid%d' % i, 1, 0xffff) for i in range(3)]
  for i in range(3):
    for j in range(i): ctx.assume(d[i] != d[j])
  core, of, ofp, D, nexus, disc, clock, events = setup(ctx, d)
  tm = expiry_timer(disc)
  ctx.check('Discovery runs its link-timeout check on a recurring timer', tm is not None and tm.recurring and tm.alive)
  if tm is not None: tm.fire()         # a periodic check that finds nothing overdue (the usual case, here: before any link is known) ...
  ref = {}           # (src idx, dst idx) -> timestamp ; ports are fixed per pair: port = 10*src+dst
  def port(i, j): return 10 * (i + 1) + (j + 1)
  pairs = [(0, 1), (1, 0), (1, 2), (2, 1), (0, 2)]
  def do_probe(k):
    i, j = pairs[k]
    probe(ctx, of, ofp, D, nexus, disc, d[i], port(i, j), d[j], port(j, i))
    new = (i, j) not in ref
    ref[(i, j)] = clock.now
    return new
  for n in range(npre):
    k = int(ctx.int('pre%d' % n, 0, len(pairs) - 1))
    do_probe(k)
    clock.now = clock.now + ctx.int('gap%d' % n, 0, 30)
  del events[:]
  # another application listening to the same LinkEvents fails on every withdrawal (e.g. it looks the vanished switch up): that is its own
  # problem - every withdrawn link is still announced to everybody else, and the periodic check goes on
  def faulty(e):
    if not e.added: raise KeyError(e.link.dpid1)
  disc.addListenerByName('LinkEvent', faulty, priority=-1)
  timeout = disc._link_timeout
  ctx.check('the periodic link-timeout check keeps running after a check that removed nothing', tm is not None and tm.alive)
  if op == 'probe':
    k = int(ctx.int('k', 0, len(pairs) - 1))
    new = do_probe(k)
    ctx.check('LinkEvent only for a new link', events == [(True, D.Link(d[pairs[k][0]], port(*pairs[k]), d[pairs[k][1]], port(pairs[k][1], pairs[k][0])))] if new else events == [])
  elif op == 'expire':
    clock.now = clock.now + ctx.int('later', 0, 40)
    fired = tm.fire() if tm is not None else False          # ... and the periodic check at the later instant, through the timer
    ctx.check('the link-timeout check still runs', fired)
    gone = [key for key, ts in ref.items() if bool(ts + timeout < clock.now)]
    for key in gone: del ref[key]
    ctx.check('one remove event per expired link', len(events) == len(gone) and all(e[0] is False for e in events))
    ctx.witness('expired' if gone else 'kept')
  elif op == 'down':
    x = int(ctx.int('who', 0, 2))
    class Ev: dpid = d[x]
    disc._handle_openflow_ConnectionDown(Ev)
    gone = [key for key in ref if x in key]
    for key in gone: del ref[key]
    ctx.check('links of the lost switch withdrawn', len(events) == len(gone) and all(e[0] is False for e in events))
  got = sorted((bool(0), 0) for _ in [])  # placeholder to keep structure simple
  links = list(disc.adjacency.keys())
  ctx.check('adjacency size', len(links) == len(ref))
  for (i, j), ts in ref.items():
    L = D.Link(d[i], port(i, j), d[j], port(j, i))
    ctx.check('link present with its last-seen time', L in disc.adjacency and bool(disc.adjacency[L] == ts))
  ctx.witness('done')


def flood_ok(ctx, nsw, phys, flood):
  """phys: list of (a, pa, b, pb) physical cables; flood[(sw, port)] -> bool. Every origin's flood reaches each switch of its component exactly once."""
  msgs = []
  out = {}
  for (a, pa, b, pb) in phys:
    out.setdefault(a, []).append((pa, b, pb)); out.setdefault(b, []).append((pb, a, pa))
  for origin in range(nsw):
    seen = {origin: 1}; q = [(origin, None)]
    while q:
      sw, inport = q.pop(0)
      for (p, nb, nbp) in out.get(sw, []):
        if p == inport or not flood[(sw, p)]: continue
        seen[nb] = seen.get(nb, 0) + 1
        if seen[nb] == 1: q.append((nb, nbp))
    for s2, n in seen.items():
      if n > 1: msgs.append('flood from %d reaches %d %d times' % (origin, s2, n))
    msgs.append(('reach', origin, set(seen)))
  return msgs


def h_forest(ctx, nsw, par, toggle, order='asc', reboot=False, selfloop=False):
  core = env.get_core()
  ST = ctx.pox('pox.openflow.spanning_tree'); D = ctx.pox('pox.openflow.discovery'); of = ctx.pox('pox.openflow.libopenflow_01')
  dpids = list(range(1, nsw + 1))
  core2, of, ofp, D, nexus, disc, clock, events = setup(ctx, [])
  ST.time = clock; ST.Timer = lambda *a, **k: None
  ST._prev.clear(); ST._dirty_switches.clear()
  # physical cables: 'par' parallel cables between every pair of switches, plus one host port (port 99) per switch
  cables = []
  for a in range(nsw):
    for b in range(a + 1, nsw):
      for k in range(par):
        cables.append((a, 10 * (b + 1) + k, b, 10 * (a + 1) + k))
  if selfloop: cables.append((0, 90, 0, 91))          # two ports of switch 0 patched together (a cabling mistake): a link like any other to Discovery
  cons = {}
  for a in range(nsw):
    ports = [(99, b'\x02\x00\x00\x00\x63' + bytes([a]))]
    for (x, px, y, py) in cables:
      if x == a: ports.append((px, b'\x02\x00\x00\x00' + bytes([px, a])))
      if y == a: ports.append((py, b'\x02\x00\x00\x00' + bytes([py, a])))
    c = Con(dpids[a], ports); nexus._connections[dpids[a]] = c; cons[a] = c
  disc.addListenerByName('LinkEvent', ST._handle_LinkEvent)   # what spanning_tree.launch wires up
  ndir = 2 * len(cables)
  mask = 0
  for i in range(ndir):
    if ctx.bool('link%d' % i): mask |= (1 << i)          # one solver-decided bit per directed link: a binary tree of forks
  def present(m, idx): return (m >> idx) & 1
  cur = [0]
  def directed(idx):
    a, pa, b, pb = cables[idx // 2]
    return D.Link(dpids[a], pa, dpids[b], pb) if idx % 2 == 0 else D.Link(dpids[b], pb, dpids[a], pa)
  def fill(m, after_first=None):
    """move the adjacency to link set m the way Discovery does: one link at a time, each change announced by a LinkEvent
    that the spanning-tree component handles (its real entry point)"""
    idxs = list(range(ndir))
    if order == 'desc': idxs.reverse()
    for idx in idxs:
      was, now_ = present(cur[0], idx), present(m, idx)
      if was == now_: continue
      L = directed(idx)
      if now_:
        disc.adjacency[L] = clock.now
        disc.raiseEventNoErrors(D.LinkEvent, True, L)         # as Discovery._handle_openflow_PacketIn does for a new link
      else:
        disc._delete_links([L])                                # the real withdrawal path (link timeout / ConnectionDown)
      if after_first is not None:
        after_first(); after_first = None
    if after_first is not None: after_first()
    cur[0] = m
  def state():
    flood = {}
    for a in range(nsw):
      for no in cons[a].ports: flood[(a, no)] = True
      for m in cons[a].sent:
        if isinstance(m, of.ofp_port_mod): flood[(a, m.port_no)] = (m.config & of.OFPPC_NO_FLOOD) == 0
    return flood
  def check(tag, m, absent=None):
    flood = state()
    bidir = [(a, pa, b, pb) for idx, (a, pa, b, pb) in enumerate(cables) if present(m, 2 * idx) and present(m, 2 * idx + 1)]
    # components of the bidirectional graph
    comp = list(range(nsw))
    def find(x):
      while comp[x] != x: x = comp[x]
      return x
    for (a, pa, b, pb) in bidir: comp[find(a)] = find(b)
    known = [c for idx, c in enumerate(cables) if present(m, 2 * idx) or present(m, 2 * idx + 1)]     # links the adjacency knows (either direction)
    res = flood_ok(ctx, nsw, known, flood)
    dup = [r for r in res if isinstance(r, str)]
    ctx.check(tag + 'no switch receives a flooded frame twice', not dup)
    if dup and not ctx.sym: print(tag, dup, bin(m))
    for r in res:
      if isinstance(r, tuple):
        _, origin, reached = r
        want = {s for s in range(nsw) if find(s) == find(origin)}
        ctx.check(tag + 'flood from %d spans its component' % origin, want <= reached)
    for a in range(nsw):
      if a != absent: ctx.check(tag + 'host-facing port keeps flooding', flood[(a, 99)])
    for idx, (a, pa, b, pb) in enumerate(cables):
      if not present(m, 2 * idx) and not present(m, 2 * idx + 1):
        # (a switch without a control connection cannot be configured: its own ports are not judged)
        ctx.check(tag + 'undiscovered port counts as edge port and floods', (flood[(a, pa)] or a == absent) and (flood[(b, pb)] or b == absent))
  fill(mask)
  check('', mask)
  if reboot:
    # one switch loses its control connection while the others go on (its links are withdrawn), the tree adapts; the switch then comes back
    # *rebooted* - a new connection, every port flooding again, as a switch with factory settings does - and its links are rediscovered
    # one by one (ascending or descending order): the forest property must hold again, whatever the component remembered about the old incarnation
    r = int(ctx.int('reboot', 0, nsw - 1))
    class Down: dpid = dpids[r]
    old = nexus._connections.pop(dpids[r])
    disc._handle_openflow_ConnectionDown(Down)
    lost = 0
    for idx in range(ndir):
      a, pa, b, pb = cables[idx // 2]
      if r in (a, b): lost |= (1 << idx)
    cur[0] = mask & ~lost
    check('while switch %d is disconnected: ' % r, cur[0], absent=r)
    target = mask
    if reboot == 'flap':
      # only the control channel flapped: the switch keeps its port configuration (NO_FLOOD bits stay as they were), and meanwhile one link
      # between the *other* switches changed - the tree the component wants afterwards may need a port that is still blocked on the returning switch
      others = [idx for idx in range(ndir) if r not in (cables[idx // 2][0], cables[idx // 2][2])]
      if others:
        t = others[int(ctx.int('toggle_while_away', 0, len(others) - 1))]
        fill(cur[0] ^ (1 << t))
        target = mask ^ (1 << t)
    c = Con(dpids[r], [(no, p.hw_addr) for no, p in old.ports.items()]); c.connect_time = clock.now
    if reboot == 'flap': c.sent = [m_ for m_ in old.sent if isinstance(m_, of.ofp_port_mod)]        # the datapath's port config survives
    nexus._connections[dpids[r]] = c; cons[r] = c
    class Up: dpid = dpids[r]; connection = c
    # Discovery probes a connecting switch at once: the first rediscovered link may be announced before the spanning-tree component has
    # handled the ConnectionUp itself (listener order) - both orders are explored
    if bool(ctx.bool('link_before_connection_up')):
      fill(target, after_first=lambda: ST._handle_ConnectionUp(Up))
    else:
      ST._handle_ConnectionUp(Up)
      fill(target)
    check('after switch %d %s and its links were rediscovered: ' % (r, 'reconnected (port config retained)' if reboot == 'flap' else 'rebooted'), target)
    ctx.witness('rebooted')
  if toggle:
    t = int(ctx.int('toggle', 0, ndir - 1))
    m2 = mask ^ (1 << t)
    fill(m2)
    check('after toggling one link: ', m2)
  ctx.witness('done')


def obligations(tier):
  thorough = tier != 'quick'
  adj = [dict(npre=n, op=o) for n in (0, 1, 2) for o in ('probe', 'expire', 'down')]
  forest = [dict(nsw=2, par=1, toggle=True), dict(nsw=2, par=2, toggle=True), dict(nsw=2, par=2, toggle=True, order='desc'), dict(nsw=3, par=1, toggle=False),
            dict(nsw=3, par=1, toggle=True), dict(nsw=3, par=1, toggle=True, order='desc')]
  forest += [dict(nsw=3, par=2, toggle=False), dict(nsw=4, par=1, toggle=False), dict(nsw=2, par=1, toggle=True, selfloop=True)]
  forest += [dict(nsw=3, par=1, toggle=False, reboot=True), dict(nsw=3, par=1, toggle=False, reboot=True, order='desc'), dict(nsw=2, par=2, toggle=False, reboot=True),
             dict(nsw=3, par=1, toggle=False, reboot='flap'), dict(nsw=3, par=1, toggle=False, reboot='flap', order='desc')]
  if thorough: forest += [dict(nsw=4, par=1, toggle=True), dict(nsw=3, par=2, toggle=True)]
  BOUNDS[tier] = dict(probe="dpid: every hex-digit length 1..16 x all values; ports 1..0xff00; receiving (dpid, port) symbolic",
                      adjacency="0..2 prior probes among 5 directed links over 3 switches with symbolic dpids and time gaps; then probe / expiry at a symbolic instant / "
                                "ConnectionDown of a symbolic switch", forest=[(f['nsw'], f['par'], f['toggle'], f.get('order', 'asc')) for f in forest], forest_note='link sets are reached one LinkEvent at a time through spanning_tree._handle_LinkEvent (ascending or descending link order)')
  return [
    Obligation('O1_probe', h_probe, [dict(digits=k) for k in range(1, 17)], witnesses=('probe',), max_decisions=30000,
               desc='probe encoding -> packet_out -> packet_in -> adjacency gains exactly the probed link'),
    Obligation('O1_foreign_probe', h_foreign_probe, [dict(form=f) for f in ('mac', 'raw8', 'binary')], witnesses=('probe',), max_decisions=30000,
               desc='probes in the other encodings the component accepts (MAC chassis id, 8-byte binary system description, arbitrary system description bytes)'),
    Obligation('O2_adjacency', h_adjacency, adj, witnesses=('done', 'expired', 'kept'), max_decisions=30000,
               desc='one event from a reachable adjacency: add/refresh/expire/withdraw vs reference'),
    Obligation('O3_forest', h_forest, forest, witnesses=('done',), max_decisions=30000, conc_cap=70000,
               desc='all link sets: flood-enabled ports form a spanning forest of the bidirectional links; edge ports flood; also after one toggle'),
  ]
