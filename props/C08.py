"""C08 - component rendezvous fires each waiter exactly once, exactly when ready."""
import io, sys, logging
from symx.run import Obligation
from props import env

CLAIM = {
 'technique': "bounded symbolic execution of the real POXCore rendezvous/lifecycle code with z3 (symx): solver-driven enumeration of operation histories and dependency sets",
 'text': "Histories of up to 5 operations over 3 component names and 3 waiters - register, call_when_ready with a symbolic dependency subset, "
         "listen_to_dependencies, callbacks that register a further component or raise, goUp with 0..2 deferrals released in any order, quit - run on a "
         "real POXCore (built per path, no scheduler thread). After every operation the set of callbacks that have fired must equal the closure "
         "computed by a reference registry: exactly once each, never before all named components are registered and immediately once they are, "
         "regardless of order, a failing callback not affecting the others; dependency-driven listener wiring exists exactly for the declared events; "
         "lifecycle events are GoingUp, Up (after the last deferral), GoingDown, Down, each once and in that order."
         " Also: a falsy component, deferrals taken through GoingUpEvent.get_deferral(), waiters becoming ready inside another waiter's callback, and the caller changing its dependency list after declaring a waiter (O3_caller_list). Late go-up deferrals (taken after the system is up) do not raise Up again.",
 'note': "Trusted: CPython, z3, symx proxies, the reference registry in props/C08.py. Selector-dominated: bounded exhaustive enumeration of histories "
         "driven by the solver. Threads, time.sleep and the scheduler's own shutdown are stubbed in _quit.",
}
EXPLANATION = ("Real POXCore.register/registerNew/call_when_ready/_try_waiter/_try_waiters/listen_to_dependencies/goUp/_get_go_up_deferral/"
               "_goUp_stage2/_quit/hasComponent/__getattr__ executed over symbolic histories; fired-callback sets and lifecycle event logs compared "
               "with a reference on every path.")
FUNCTIONS = ["pox.core.POXCore.register/registerNew/call_when_ready/_try_waiter/_try_waiters/listen_to_dependencies/goUp/_get_go_up_deferral/"
             "_goUp_stage2/_waiter_notify/_quit/hasComponent/__getattr__"]
BOUNDS = {}
OUTSIDE = ["more than 3 component names / 3 waiters / 5 operations", "boot.py argument parsing", "real threads in quit()", "the scheduler's own shutdown"]
ASSUMPTIONS = ["POXCore is constructed per path with Scheduler.runThreaded stubbed; pox.core.time.sleep is a no-op; scheduler marked as quit before _quit's wait loop"]

NAMES = ['alpha', 'alpha_beta', 'gamma']      # (a component name may contain underscores, and one name may be the first token of another)


class Boom(Exception):
  pass


def fresh_core(ctx):
  env.quiet()
  recoco = ctx.pox('pox.lib.recoco.recoco')
  recoco.Scheduler.runThreaded = lambda self, daemon=False: None
  pc = ctx.pox('pox.core')
  out = sys.stdout; sys.stdout = io.StringIO()
  try:
    c = pc.POXCore(threaded_selecthub=False, handle_signals=False)
  finally:
    sys.stdout = out
  return pc, c


def h_rendezvous(ctx, plan):
  """plan letters: R register (symbolic component), W call_when_ready (symbolic dependency set, symbolic callback behaviour),
  L listen_to_dependencies(sink with handlers for a symbolic component)"""
  pc, core = fresh_core(ctx)
  revent = ctx.pox('pox.lib.revent.revent')
  class Ping(revent.Event): pass
  class Comp(revent.EventMixin):
    _eventMixin_events = set([Ping])
  fired = []            # waiter ids in firing order, with the registry at call time
  registry = set()
  waiters = {}          # wid -> (deps, behaviour, chained component)
  sinks = []
  class EmptyComp(Comp):
    # a component that is *falsy* when it is registered (a container that is still empty, like pox.topology's Topology or the dict that
    # pox.datapaths registers): it is registered all the same
    def __len__(self): return 0
  def do_register(name):
    core.register(name, EmptyComp() if name == NAMES[1] else Comp())
    registry.add(name)
  wid = 0
  for i, op in enumerate(plan):
    if op == 'R':
      name = NAMES[int(ctx.int('rname%d' % i, 0, 2))]
      if name in registry: continue         # re-registration only logs a warning; not part of the claim
      do_register(name)
    elif op == 'W':
      mask = int(ctx.int('deps%d' % i, 0, 7))
      deps = [NAMES[k] for k in range(3) if mask & (1 << k)]
      beh = int(ctx.int('beh%d' % i, 0, 2))          # 0 plain, 1 registers the next unregistered component, 2 raises
      w = wid; wid += 1
      def cb(w=w, deps=deps, beh=beh):
        fired.append((w, set(core.components.keys()) & set(NAMES)))
        if beh == 1:
          for n in NAMES:
            if n not in core.components:
              do_register(n)
              # "immediately once they are": by the time register() returns - here, inside another waiter's callback - every declared waiter
              # whose components are now all registered has run
              for w2, (deps2, b2) in list(waiters.items()):
                if all(d in registry for d in deps2):
                  ctx.check('nested registration: waiter %d has run when register() returns inside a callback' % w2, any(x[0] == w2 for x in fired))
              break
        elif beh == 2:
          raise Boom()
      cb.__name__ = 'cb%d' % w
      waiters[w] = (deps, beh)
      # the callable itself is rotated over plain function / functools.partial / callable object / bound method of a builtin container
      kind = (2 * i + w) % 4
      kwn = {}
      if kind == 1:
        import functools
        cb = functools.partial(cb); kwn = dict(name='partial%d' % w)
      elif kind == 2:
        class Callable(object):
          def __init__(self, f): self.f = f
          def __call__(self): return self.f()
        cb = Callable(cb); kwn = dict(name='callable%d' % w)
      form = (i + w) % 3                      # the three accepted argument forms, rotated over positions
      if form == 0: core.call_when_ready(cb, deps, **kwn)
      elif form == 1: core.call_when_ready(cb, tuple(deps) if deps else [], **kwn)
      else: core.call_when_ready(cb, deps[0] if len(deps) == 1 else set(deps), **kwn)
    elif op == 'L':
      comp = NAMES[int(ctx.int('lname%d' % i, 0, 2))]
      hits = []
      class Sink(object):
        def _all_dependencies_met(self, hits=hits): hits.append('met')
      def handler(self, event, hits=hits): hits.append('ping')
      setattr(Sink, '_handle_%s_Ping' % comp, handler)
      s = Sink()
      sinks.append((s, comp, hits))
      # the dependency is derived from the handler name, or also given explicitly: as a bare string, a list, a set
      form = (i + len(sinks)) % 4
      if form == 0: core.listen_to_dependencies(s)
      elif form == 1: core.listen_to_dependencies(s, comp)
      elif form == 2: core.listen_to_dependencies(s, [comp])
      else: core.listen_to_dependencies(s, set([comp]))
    # ---- reference: after every operation, exactly the waiters whose dependencies are registered have fired, once each
    have = set(registry)
    ids = [w for w, _ in fired]
    ctx.check('op %d: nobody fired twice' % i, len(ids) == len(set(ids)))
    for w, (deps, beh) in waiters.items():
      ready = all(d in have for d in deps)
      ctx.check('op %d: waiter %d fired iff its components are registered' % (i, w), (w in ids) == ready)
    for w, seen in fired:
      ctx.check('op %d: waiter %d saw all its components at call time' % (i, w), all(d in seen for d in waiters[w][0]))
    for s, comp, hits in sinks:
      ready = comp in have
      ctx.check('op %d: _all_dependencies_met once iff ready' % i, hits.count('met') == (1 if ready else 0))
      if ready:
        ctx.check('op %d: component attribute set on sink' % i, getattr(s, '_%s_' % comp, None) is core.components[comp])
        before = hits.count('ping')
        core.components[comp].raiseEvent(Ping)
        ctx.check('op %d: dependency listener wired exactly once' % i, hits.count('ping') == before + 1)
  ctx.check('pending waiters are exactly the unready ones', len(core._waiters) == sum(1 for w, (deps, b) in waiters.items() if not all(d in registry for d in deps))
            + sum(1 for s, comp, hits in sinks if comp not in registry))
  ctx.witness('done')


def h_lifecycle(ctx, ndef, plan, in_handler=(), requit=None, via_event=False):
  """plan letters: G goUp, 0/1 release deferral i, Q quit (via _quit, as quit() does on its helper thread)"""
  pc, core = fresh_core(ctx)
  old_core = pc.core; pc.core = core
  old_time = pc.time; pc.time = env.Clock(0)
  log = []
  for name in ('GoingUpEvent', 'UpEvent', 'GoingDownEvent', 'DownEvent'):
    core.addListenerByName(name, lambda e, name=name: log.append(name))
  try:
    if via_event:
      # every deferral is taken by its own GoingUp listener through the event's public get_deferral() (independent components deferring the
      # same going-up), and released later
      defs = [None] * ndef
      for k in range(ndef): core.addListenerByName('GoingUpEvent', (lambda e, k=k: defs.__setitem__(k, e.get_deferral())), priority=9 - k)
    else:
      defs = [core._get_go_up_deferral() for _ in range(ndef)]
    released = set(); gone_up = False; quit_done = False
    def during_going_up(e):
      # a GoingUp listener that releases deferrals synchronously, while GoingUpEvent is still being dispatched
      for k in in_handler:
        if k < ndef and k not in released:
          defs[k](); released.add(k)
    if in_handler: core.addListenerByName('GoingUpEvent', during_going_up, priority=5)
    core.addListenerByName('GoingUpEvent', lambda e: log.append('late GoingUp listener'), priority=-5)
    if requit:
      # quit() asked for again while the shutdown is in progress (from a GoingDown / Down listener) or after it: still one GoingDown, one Down
      again = []
      def requit_now(e):
        if not again:
          again.append(1); core.quit()
      if requit == 'in_going_down': core.addListenerByName('GoingDownEvent', requit_now, priority=5)
      elif requit == 'in_going_down_late': core.addListenerByName('GoingDownEvent', requit_now, priority=-5)
      elif requit == 'in_down': core.addListenerByName('DownEvent', requit_now, priority=5)
    for i, op in enumerate(plan):
      if op == 'q':
        core.quit()            # a second request after the shutdown has completed (same thread, not starting up: runs _quit directly)
      elif op == 'G' and not gone_up:
        core.goUp(); gone_up = True
      elif op == 'L':
        # a component that comes late takes (and releases) a deferral when the system may already be up: Up is not raised a second time
        core._get_go_up_deferral()()
      elif op in '01':
        k = int(op)
        if k < ndef and k not in released:
          defs[k](); released.add(k)
      elif op == 'Q' and gone_up and not quit_done:
        core.scheduler._hasQuit = True; core.scheduler._allDone = True
        core.scheduler.callLater = lambda *a, **k: None
        core._quit(); quit_done = True
      up = gone_up and len(released) == ndef
      exp = []
      if gone_up: exp.append('GoingUpEvent'); exp.append('late GoingUp listener')
      if up and (not quit_done or 'UpEvent' in log): exp.append('UpEvent')
      exp_before_quit = list(exp)
      if quit_done: exp = [e for e in exp if e in log[:len(exp)]] + ['GoingDownEvent', 'DownEvent'] if False else exp + ['GoingDownEvent', 'DownEvent']
      ctx.check('step %d (%s): lifecycle events so far' % (i, op), log == exp if not quit_done else (log[-2:] == ['GoingDownEvent', 'DownEvent'] and log.count('GoingUpEvent') == 1 and log.count('UpEvent') <= 1 and log.count('GoingDownEvent') == 1 and log.count('DownEvent') == 1))
      if not quit_done: ctx.check('step %d: up only after the last deferral' % i, ('UpEvent' in log) == up)
    ctx.check('each lifecycle event at most once', all(log.count(n) <= 1 for n in set(log)))
    if ndef:
      def twice():
        try:
          defs[0]()
        except RuntimeError:
          return True
        return False
      if 0 in released: ctx.check('releasing a deferral twice is rejected', twice())
  finally:
    pc.core = old_core; pc.time = old_time
  ctx.witness('done')


def h_caller_list(ctx):
  """a waiter waits for the components named when it was declared: the caller's list object may be changed afterwards (names appended for a
  second, staged declaration; names removed) without changing what an earlier waiter waits for"""
  pc, core = fresh_core(ctx)
  revent = ctx.pox('pox.lib.revent.revent')
  class Comp(revent.EventMixin): _eventMixin_events = set()
  fired = []
  a, b, c = NAMES
  deps = [a]
  core.call_when_ready(lambda: fired.append('f'), deps)
  deps.append(b)                                   # staged declaration: the same list, extended, for a second waiter
  core.call_when_ready(lambda: fired.append('g'), deps)
  deps2 = [b, c]
  core.call_when_ready(lambda: fired.append('h'), deps2)
  deps2.remove(c)                                  # the caller recycles its list
  order = [[a, b, c], [b, a, c], [c, b, a], [b, c, a], [a, c, b], [c, a, b]][int(ctx.int('order', 0, 5))]
  reg = set()
  for n in order:
    core.register(n, Comp()); reg.add(n)
    exp = set()
    if a in reg: exp.add('f')
    if a in reg and b in reg: exp.add('g')
    if b in reg and c in reg: exp.add('h')
    ctx.check('after registering %s: exactly the waiters whose declared components are all registered have fired, once each' % n, sorted(fired) == sorted(exp))
  ctx.witness('done')


def obligations(tier):
  thorough = tier != 'quick'
  plans = ['RW', 'WR', 'WRR', 'RWR', 'WWR', 'WRW', 'LR', 'RL', 'WLR', 'LRW', 'WWRR', 'WRRR', 'RWWR', 'LWRR']
  if thorough: plans += ['WWWRR', 'WRWRR', 'LLRRR', 'WLRRW', 'RRWWW', 'WWRRR', 'LWRWR']
  life = []
  for nd in (0, 1, 2):
    for p in (['G', 'GQ'] if nd == 0 else ['G0', '0G', 'G0Q', '0GQ', 'GQ'] if nd == 1 else ['G01', 'G10', '0G1', '01G', '1G0Q', 'G01Q', 'G0Q']):
      life.append(dict(ndef=nd, plan=p))
  life += [dict(ndef=0, plan='GQ', requit='in_going_down'), dict(ndef=0, plan='GQ', requit='in_going_down_late'), dict(ndef=0, plan='GQ', requit='in_down'),
           dict(ndef=0, plan='GQq'), dict(ndef=1, plan='G0Q', requit='in_going_down'), dict(ndef=1, plan='G0Qq', requit='in_down')]
  life += [dict(ndef=0, plan='GL'), dict(ndef=1, plan='G0L'), dict(ndef=1, plan='GL0L'), dict(ndef=0, plan='LGLQ')]       # L: a late deferral, taken and released at once
  life += [dict(ndef=nd, plan=p, via_event=True) for nd, p in ((1, 'G0'), (1, 'G0Q'), (2, 'G01'), (2, 'G10'), (2, 'G0Q'), (2, 'G10Q'))]
  life += [dict(ndef=1, plan='G', in_handler=(0,)), dict(ndef=2, plan='G1', in_handler=(0,)), dict(ndef=2, plan='1G', in_handler=(0,)),
           dict(ndef=2, plan='G', in_handler=(0, 1)), dict(ndef=1, plan='GQ', in_handler=(0,))]
  BOUNDS[tier] = dict(rendezvous_histories=plans, legend="R register(symbolic name), W call_when_ready(symbolic dependency subset of 3 names, callback "
                      "behaviour plain/registers-another/raises, three argument forms), L listen_to_dependencies(symbolic component)",
                      lifecycle=[(c['ndef'], c['plan'], c.get('in_handler', ())) for c in life])
  return [
    Obligation('O1_rendezvous', h_rendezvous, [dict(plan=p) for p in plans], witnesses=('done',), max_decisions=20000,
               desc='fired callbacks == reference closure after every operation; listener wiring; pending waiters'),
    Obligation('O3_caller_list', h_caller_list, [dict()], witnesses=('done',), desc='the dependency list handed to call_when_ready is the caller\'s: changing it later does not change what a declared waiter waits for'),
    Obligation('O2_lifecycle', h_lifecycle, life, witnesses=('done',), desc='GoingUp, Up (after last deferral), GoingDown, Down exactly once, in order'),
  ]
