"""Shared environment model for harnesses (used identically in symbolic and replay mode): a POXCore without its
scheduler thread, silent logging, scripted sockets, virtual clock.  Every stub here is part of the stated claim."""
import importlib, logging, sys, io, errno as _errno


def quiet():
  logging.disable(logging.CRITICAL)


def get_core():
  """pox.core.core built by the real POXCore.__init__, but Scheduler.runThreaded is a no-op (no thread is started)"""
  quiet()
  recoco = importlib.import_module('pox.lib.recoco.recoco')
  recoco.Scheduler.runThreaded = lambda self, daemon=False: None
  pc = importlib.import_module('pox.core')
  if pc.core is None:
    out = sys.stdout
    sys.stdout = io.StringIO()
    try:
      pc.initialize(threaded_selecthub=False, handle_signals=False)
    finally:
      sys.stdout = out
  return pc.core


class FakeSocket:
  """scripted socket: recv() returns the queued chunks in order (then b'' = EOF, or raises if eof=False);
  send() accepts everything unless a script of outcomes is given"""
  _fd = 1000
  def __init__(self, chunks=(), eof=True, send_script=None):
    self.chunks = list(chunks); self.eof = eof; self.sent = []; self.closed = False; self.shut = False
    self.send_script = list(send_script) if send_script is not None else None
    self.send_calls = 0
    FakeSocket._fd += 1; self.fd = FakeSocket._fd
  def feed(self, data): self.chunks.append(data)
  def recv(self, n, flags=0):
    if self.chunks:
      d = self.chunks.pop(0)
      if len(d) > n:
        self.chunks.insert(0, d[n:]); d = d[:n]
      return d
    if self.eof: return b''
    raise BlockingIOError(_errno.EAGAIN, 'would block')
  def send(self, data, flags=0):
    self.send_calls += 1
    if self.closed: raise OSError(_errno.EBADF, 'closed')
    if self.send_script is not None and self.send_script:
      k = self.send_script.pop(0)
      if isinstance(k, BaseException): raise k
      k = min(k, len(data)) if isinstance(k, int) else k
      self.sent.append(data[:k]); return k
    self.sent.append(data); return len(data)
  def fileno(self): return -1 if self.closed else self.fd          # (a closed socket object reports -1, like the real one)
  def close(self): self.closed = True
  def shutdown(self, how=None): self.shut = True
  def setblocking(self, b): pass
  def getpeername(self): return ('10.0.0.1', 6633)
  def getsockname(self): return ('10.0.0.2', 12345)
  def setsockopt(self, *a): pass
  def bind(self, a): pass
  def listen(self, n): pass
  def accept(self): raise BlockingIOError(_errno.EAGAIN, 'would block')


class FakeSocketModule:
  """stands in for the socket module inside one POX module namespace"""
  def __init__(self, real):
    self._real = real
    self.created = []
  def __getattr__(self, n): return getattr(self._real, n)
  def socket(self, *a, **kw):
    s = FakeSocket(eof=False); self.created.append(s); return s


class Clock:
  def __init__(self, now=0): self.now = now
  def time(self): return self.now
  def sleep(self, s): pass
  def __getattr__(self, n):
    import time as _t
    return getattr(_t, n)


class DummyPinger:
  def ping(self): pass
  def pongAll(self): pass
  def pong(self): pass
  def fileno(self): return 999
  def __repr__(self): return "<pinger>"


def tobytes(ctx, items):
  from symx.core import SymBytes
  if ctx.sym: return SymBytes(list(items))
  return bytes(items)


def concrete_bytes(b):
  """bytes value for evidence / comparison in replay mode"""
  return bytes(b)
