"""SELFTEST - translator validation (not a property): the symx models of struct / socket / array, the bit-vector encoding of
Python integer operators and the numeral rendering are compared with the real CPython functions.

Two kinds of clauses, both decided by z3 on fully symbolic operands:
 * pinning: the symbolic result term, specialised to a sampled operand vector (boundary values + seeded random ones), must equal
   what the real C function returns for that vector   (Implies(inputs == sample, model(inputs) == real(sample)));
 * consistency over ALL values: unpack(pack(v)) == v, ntohl(htonl(x)) == x, int(str(x)) == x ...
Format strings are collected from /repo's current sources (every constant first argument of a struct.* call).
A failing clause is an ENGINE-ERROR (exit 3), never a property verdict.  `./check SELFTEST` additionally runs the repository's
own test-suite through the AST-rewritten modules (concrete values) and requires the same pass set as the plain run."""
import ast, os, random, struct, socket, array
from symx.run import Obligation

CLAIM = None
NO_EVIDENCE = True
EXPLANATION = "translator validation"
FUNCTIONS = []
BOUNDS = {}
OUTSIDE = []
ASSUMPTIONS = []
REPO = os.environ.get('VERIF_REPO', '/repo')


def collect_formats():
  fmts = set(); skipped = set()
  for dp, dn, fn in os.walk(os.path.join(REPO, 'pox')):
    for f in fn:
      if not f.endswith('.py'): continue
      try:
        tree = ast.parse(open(os.path.join(dp, f), 'rb').read())
      except SyntaxError:
        continue
      for n in ast.walk(tree):
        if isinstance(n, ast.Call) and isinstance(n.func, ast.Attribute) and n.func.attr in ('pack', 'unpack', 'unpack_from', 'calcsize', 'Struct', 'pack_into') \
           and isinstance(n.func.value, ast.Name) and n.func.value.id == 'struct' and n.args and isinstance(n.args[0], ast.Constant) \
           and isinstance(n.args[0].value, (str, bytes)):
          s = n.args[0].value
          if isinstance(s, bytes): s = s.decode()
          try:
            struct.calcsize(s)
          except struct.error:
            skipped.add(s); continue
          if any(c in s for c in 'fdepP'): skipped.add(s); continue
          fmts.add(s)
  return sorted(fmts), sorted(skipped)


def fields(fmt):
  """independent of symx.shims: [(code, count-for-s)] per packed value, derived from the format text only"""
  f = fmt.replace(' ', '')
  prefix = ''
  if f and f[0] in '@=<>!': prefix, f = f[0], f[1:]
  out = []; i = 0
  while i < len(f):
    j = i
    while f[j].isdigit(): j += 1
    cnt = int(f[i:j]) if j > i else 1
    c = f[j]; i = j + 1
    if c == 'x': continue
    if c == 's': out.append(('s', cnt))
    else: out.extend([(c, 1)] * cnt)
  return prefix, out


def rng_for(prefix, c):
  size = struct.calcsize((prefix if prefix != '@' else '') + c)
  if c in 'bhilqn': return -(1 << (8 * size - 1)), (1 << (8 * size - 1)) - 1
  return 0, (1 << (8 * size)) - 1


def samples_int(lo, hi, rnd, k):
  s = [lo, hi, 0 if lo <= 0 <= hi else lo, (lo + hi) // 2, min(hi, 0x80), max(lo, -1)]
  s += [rnd.randint(lo, hi) for _ in range(k)]
  return s


def h_struct(ctx, fmt):
  from symx import shims, core
  S = shims.StructShim
  prefix, fl = fields(fmt)
  rnd = random.Random(hash(fmt) & 0xffff)
  vals = []; kinds = []
  for i, (c, cnt) in enumerate(fl):
    if c == 's': vals.append(ctx.bytes('v%d' % i, cnt)); kinds.append(('s', cnt))
    elif c == 'c': vals.append(ctx.bytes('v%d' % i, 1)); kinds.append(('s', 1))
    elif c == '?': vals.append(ctx.bool('v%d' % i)); kinds.append(('?', 0))
    else:
      lo, hi = rng_for(prefix, c)
      vals.append(ctx.int('v%d' % i, lo, hi)); kinds.append(('i', (lo, hi)))
  if not ctx.sym: return
  total = struct.calcsize(fmt)
  r = S.pack(fmt, *vals)
  ctx.check('pack length == calcsize', len(r) == total)
  NS = 8
  cols = []
  for (k, a) in kinds:
    if k == 's': cols.append([bytes(rnd.randrange(256) for _ in range(a)) if j > 1 else bytes([0xff * j] * a) for j in range(NS)])
    elif k == '?': cols.append([bool(j & 1) for j in range(NS)])
    else: cols.append(samples_int(a[0], a[1], rnd, NS - 6))
  for j in range(NS):
    sv = [col[j] for col in cols]
    cond = ctx.And(*[(ctx.Eq(v, s) if not isinstance(s, bool) else ctx.Iff(v, s)) for v, s in zip(vals, sv)]) if vals else True
    want = struct.pack(fmt, *sv)
    ctx.check('pack pinned to struct.pack at sample %d' % j, ctx.Implies(cond, ctx.Eq(r, want)))
  # unpack on an independent symbolic buffer, pinned at samples
  buf = ctx.bytes('buf', total)
  u = S.unpack(fmt, buf)
  ctx.check('unpack arity', len(u) == len(fl))
  sb = [bytes(total), bytes([0xff] * total), bytes([0x80] * total), bytes([0x7f, 0xff] * total)[:total], bytes(range(1, total + 1))]
  sb += [bytes(rnd.randrange(256) for _ in range(total)) for _ in range(4)]
  for j, b in enumerate(sb):
    want = struct.unpack(fmt, b)
    eqs = []
    for x, w in zip(u, want):
      eqs.append(ctx.Iff(x, w) if isinstance(w, bool) else ctx.Eq(x, w))
    ctx.check('unpack pinned to struct.unpack at sample %d' % j, ctx.Implies(ctx.Eq(buf, b), ctx.And(*eqs) if eqs else True))
  # consistency over all values
  back = S.unpack(fmt, r)
  eqs = []
  for x, v, (k, a) in zip(back, vals, kinds):
    eqs.append(ctx.Iff(x, v) if k == '?' else ctx.Eq(x, v))
  ctx.check('unpack(pack(v)) == v for every v', ctx.And(*eqs) if eqs else True)
  if not any(c == 'x' for c in fmt) and not any(k == '?' for k, a in kinds) and (prefix in '!<>=' and prefix != ''):
    ctx.check('pack(unpack(b)) == b for every b', ctx.Eq(S.pack(fmt, *u), buf))
  u2 = S.unpack_from(fmt, core.SymBytes([7, 9]) + buf + core.SymBytes([1]), 2)
  ctx.check('unpack_from honours the offset', ctx.And(*[(ctx.Iff(a, b) if isinstance(a, core.SymBool) or isinstance(a, bool) else ctx.Eq(a, b)) for a, b in zip(u2, u)]) if fl else True)
  ctx.witness('done')


def h_socket(ctx):
  from symx import shims, core
  K = shims.SocketShim
  rnd = random.Random(7)
  x = ctx.int('x', 0, 0xffffffff); y = ctx.int('y', 0, 0xffff)
  if not ctx.sym: return
  for s in samples_int(0, 0xffffffff, rnd, 6):
    ctx.check('htonl', ctx.Implies(x == s, ctx.And(K.htonl(x) == socket.htonl(s), K.ntohl(x) == socket.ntohl(s))))
  for s in samples_int(0, 0xffff, rnd, 6):
    ctx.check('htons', ctx.Implies(y == s, ctx.And(K.htons(y) == socket.htons(s), K.ntohs(y) == socket.ntohs(s))))
  ctx.check('ntohl(htonl(x)) == x', K.ntohl(K.htonl(x)) == x)
  ctx.check('ntohs(htons(y)) == y', K.ntohs(K.htons(y)) == y)
  b = ctx.bytes('b', 4)
  for s in (b'\x00\x00\x00\x00', b'\xff\xff\xff\xff', b'\x7f\x00\x00\x01', b'\x0a\x14\xc8\xfe', b'\x01\x02\x03\x04'):
    got = K.inet_ntoa(b)
    ctx.check('inet_ntoa', ctx.Implies(ctx.Eq(b, s), ctx.Eq(got, socket.inet_ntoa(s))))
  ctx.witness('done')


def h_array(ctx, n):
  from symx import shims, core
  A = shims.ArrayShim
  rnd = random.Random(n)
  b = ctx.bytes('b', n)
  if not ctx.sym: return
  if n % 2:
    try:
      A.array('H', b); ok = False
    except ValueError:
      ok = True
    ctx.check("array('H', odd-length bytes) raises ValueError as the real one", ok)
    ctx.witness('done'); return
  words = list(A.array('H', b)); octs = list(A.array('B', b))
  ctx.check('array lengths', len(words) == n // 2 and len(octs) == n)
  for s in [bytes(n), bytes([0xff] * n), bytes(range(1, n + 1))] + [bytes(rnd.randrange(256) for _ in range(n)) for _ in range(4)]:
    ctx.check("array('H')", ctx.Implies(ctx.Eq(b, s), ctx.And(*[w == r for w, r in zip(words, array.array('H', s))]) if words else True))
    ctx.check("array('B')", ctx.Implies(ctx.Eq(b, s), ctx.And(*[w == r for w, r in zip(octs, array.array('B', s))]) if octs else True))
  ctx.witness('done')


BINOPS = [('add', lambda a, b: a + b), ('sub', lambda a, b: a - b), ('mul', lambda a, b: (a & 0xffff) * (b & 0xfff)), ('and', lambda a, b: a & b),
          ('or', lambda a, b: a | b), ('xor', lambda a, b: a ^ b), ('lt', lambda a, b: a < b), ('le', lambda a, b: a <= b),
          ('eq', lambda a, b: a == b), ('ne', lambda a, b: a != b), ('gt', lambda a, b: a > b), ('ge', lambda a, b: a >= b),
          ('rsub', lambda a, b: 1000 - a), ('neg', lambda a, b: -a), ('inv', lambda a, b: ~a), ('abs', lambda a, b: abs(a))]
CONSTOPS = [('shl3', lambda a: a << 3), ('shr5', lambda a: a >> 5), ('shr0', lambda a: a >> 0), ('fdiv7', lambda a: a // 7), ('mod7', lambda a: a % 7),
            ('fdiv256', lambda a: a // 256), ('mod256', lambda a: a % 256), ('fdiv4', lambda a: a // 4), ('mod10', lambda a: a % 10),
            ('and_hi', lambda a: a & 0xff00), ('and_neg', lambda a: a & ~0x1f), ('mask32', lambda a: a & 0xffffffff), ('divmod', lambda a: divmod(a, 10)[0] * 100 + divmod(a, 10)[1])]


def h_intops(ctx, signed):
  rnd = random.Random(11 + signed)
  lo, hi = (-(1 << 33), (1 << 33)) if signed else (0, 1 << 34)
  a = ctx.int('a', lo, hi); b = ctx.int('b', lo, hi)
  if not ctx.sym: return
  sa = samples_int(lo, hi, rnd, 6); sb = list(reversed(samples_int(lo, hi, rnd, 6)))
  for name, f in BINOPS:
    r = f(a, b)
    for x, y in zip(sa, sb):
      w = f(x, y)
      ctx.check('int op %s' % name, ctx.Implies(ctx.And(a == x, b == y), (ctx.Iff(r, w) if isinstance(w, bool) else r == w)))
  for name, f in CONSTOPS:
    r = f(a)
    for x in sa:
      ctx.check('int op %s' % name, ctx.Implies(a == x, r == f(x)))
  # algebraic facts over all values of a narrower operand (Python floor semantics)
  c = ctx.int('c', -4096 if signed else 0, 4096)
  ctx.check('c == 7*(c//7) + c%7, 0 <= c%7 < 7', ctx.And(c == 7 * (c // 7) + c % 7, c % 7 >= 0, c % 7 < 7))
  ctx.check('(c >> 5) == c // 32', (c >> 5) == c // 32)
  ctx.check('~a == -a - 1', ~a == -a - 1)
  ctx.witness('done')


def h_text(ctx, what):
  from symx import sx, core
  rnd = random.Random(5)
  x = ctx.int('x', 0, 0xffffffff)
  if not ctx.sym: return
  forms = {'d': (lambda v: sx.mod('%d', v), lambda v: '%d' % v), 'str': (sx.str_, str), 'x': (lambda v: sx.mod('%x', v), lambda v: '%x' % v),
           '02x': (lambda v: sx.mod('%02x', v & 0xff), lambda v: '%02x' % (v & 0xff)), 'hex': (sx.hex_, hex),
           '08x': (lambda v: sx.mod('%08x', v), lambda v: '%08x' % v), 'i': (lambda v: sx.mod('p%i:%s', (v, v & 7)), lambda v: 'p%i:%s' % (v, v & 7)),
           'fmt': (lambda v: sx.format_('{0}/{1}', (v, v & 1), {}), lambda v: '{0}/{1}'.format(v, v & 1))}
  sym, real = forms[what]
  t = sym(x)
  for s in samples_int(0, 0xffffffff, rnd, 5) + [9, 10, 99, 100, 255, 256, 0xfffff, 0x100000]:
    ctx.check('text %s' % what, ctx.Implies(x == s, ctx.Eq(t, real(s))))
  y = ctx.int('y', 0, 0xffff)
  if what in ('d', 'str'):
    ctx.check('int(str(y)) == y for every 16-bit y', sx.int_(sym(y)) == y)
  if what in ('x', '08x'):
    ctx.check('int(hex text, 16) == x for every x', sx.int_(t, 16) == x)
  ctx.witness('done')


def h_utf8(ctx, n):
  from symx import core
  rnd = random.Random(100 + n)
  b = ctx.bytes('b', n)
  if not ctx.sym: return
  f = core._utf8_valid(list(b))
  special = [0xc0, 0xc1, 0xc2, 0xdf, 0xe0, 0xed, 0xef, 0xf0, 0xf4, 0xf5, 0x80, 0xbf, 0x7f, 0x9f, 0xa0, 0x90, 0x8f, 0x00, 0xff]
  for j in range(60):
    raw = bytes(rnd.choice([rnd.randrange(256), rnd.choice(special)]) for _ in range(n))
    try:
      raw.decode('utf-8'); want = True
    except UnicodeDecodeError:
      want = False
    ctx.check('UTF-8 well-formedness predicate pinned to bytes.decode', ctx.Implies(ctx.Eq(b, raw), ctx.Iff(f, want)))
  ctx.witness('done')


def obligations(tier):
  fmts, skipped = collect_formats()
  BOUNDS[tier] = dict(struct_formats=len(fmts), skipped_formats=skipped)
  return [
    Obligation('S1_struct', h_struct, [dict(fmt=f) for f in fmts], witnesses=('done',), desc='struct model vs real struct on every format string in /repo/pox'),
    Obligation('S2_socket', h_socket, [dict()], witnesses=('done',), desc='byte-order helpers, inet_ntoa'),
    Obligation('S3_array', h_array, [dict(n=n) for n in (0, 2, 6, 7)], witnesses=('done',), desc="array('H'|'B', bytes)"),
    Obligation('S4_intops', h_intops, [dict(signed=0), dict(signed=1)], witnesses=('done',), desc='bit-vector encoding of Python int operators'),
    Obligation('S6_utf8', h_utf8, [dict(n=n) for n in (1, 2, 3, 4, 6)], witnesses=('done',), desc='UTF-8 well-formedness predicate used by SymBytes.decode'),
    Obligation('S5_text', h_text, [dict(what=w) for w in ('d', 'str', 'x', '02x', 'hex', '08x', 'i', 'fmt')], witnesses=('done',), max_decisions=20000,
               desc='numeral rendering and parsing'),
  ]
