"""C06 - the cooperative scheduler runs every task step exactly once, in isolation."""
import io, sys
from symx.run import Obligation
from props import env

CLAIM = {
 'technique': "bounded symbolic execution of the real recoco scheduler and inline select hub with z3 (symx): symbolic durations, clock advances and ready sets; selector-enumerated task programs",
 'text': "Up to 2 tasks whose up to 3 yields are drawn from the yield vocabulary (0, Sleep(d), Select(fd, timeout t or none), False, raise, a Lock acquire/"
         "release pair for C07) run on a real Scheduler driven through cycle() and the real SelectHub._select() in inline mode; select.select is a "
         "stub obeying its contract (returns a symbolic subset of the requested fds after a symbolic delay <= the requested timeout). Durations and "
         "clock advances are symbolic milliseconds. On every path: each task's steps execute in program order exactly once and never re-entrantly, a "
         "sleeping / timed-waiting task is resumed exactly once and not before its time, a Select wake-up delivers exactly the ready fds, one-shot and "
         "recurring timers fire at >= their times until cancelled, a raising task is descheduled without affecting the other, and at quiescence "
         "every task that could run has finished. Nested task_function / Again sub-task chains (depth <= 3, thorough 4; symbolic return / raise / "
         "fall-through per level, extra blocking calls around the sub-call, two concurrent callers) produce exactly the call/return log of ordinary "
         "calls: a sub-task's result or exception reaches exactly its caller."
         " Also: the exception class of a failing task, three spellings of a timed Select, tasks below priority 1 (lottery) and overdue sleeps with a turn-taking clause. O4_epoll also covers a hang-up (EPOLLHUP) on a registered descriptor.",
 'note': "Trusted: CPython, z3, symx proxies, the stub select/clock/pinger (props/C06.py, props/env.py). The threaded select hub, CallBlocking and the "
         "epoll variant need real threads/fds and are outside the claim; integer millisecond clock.",
}
EXPLANATION = ("Real Scheduler.cycle/schedule/fast_schedule, BaseTask.execute, Task.run, Sleep/Select/DummyOp.execute, SelectHub._select/"
               "registerSelect/registerTimer/_return (threaded=False) and Timer executed with symbolic times; execution trace assertions decided by z3.")
FUNCTIONS = ["pox.lib.recoco.recoco.Again.execute/AgainTask.run_again/task_function", "pox.lib.recoco.recoco.Scheduler.cycle/schedule/fast_schedule/quit", "BaseTask.execute/start", "Task.run", "Sleep/Select/DummyOp/Exit.execute",
             "SelectHub._select/idle/break_idle/registerSelect/registerTimer/_return/_cycle (inline)", "Timer.run/cancel/start"]
BOUNDS = {}
OUTSIDE = ["CallBlocking (worker threads); the threaded hub and Synchronizer are C07 O4's subject", "EpollSelect: exceptional conditions (EPOLLERR/HUP are reported for every registered fd by design), more than 2 fds / 3 (4) calls", "more than 2 tasks x 3 yields", "float clocks"]
ASSUMPTIONS = ["select.select stub: returns a subset of the requested fds; if it returns nothing the full timeout has elapsed; otherwise some delay <= timeout",
               "time.time() is the harness's integer clock; the pinger is an in-memory flag"]


class Pinger:
  after_ping = [None]         # hook: what runs while the pinging thread is descheduled inside the ping system call (C07)
  def __init__(self): self.flag = False
  def ping(self):
    self.flag = True
    h = Pinger.after_ping[0]
    if h is not None:
      Pinger.after_ping[0] = None
      h()
  def pongAll(self): self.flag = False
  def pong(self): self.flag = False
  def fileno(self): return 998


class FakeSelect:
  """select.select contract with symbolic outcome"""
  def __init__(self, ctx, clock, budget):
    self.ctx = ctx; self.clock = clock; self.n = 0; self.budget = budget; self.calls = []
  def select(self, r, w, x, timeout=None):
    ctx = self.ctx
    self.n += 1
    r = list(r); w = list(w); x = list(x)
    pingers = [f for f in r if isinstance(f, Pinger)]
    flagged = [p for p in pingers if p.flag]
    fds = [f for f in r if not isinstance(f, Pinger)]
    ready = []
    if self.n <= self.budget:
      for f in fds:
        if ctx.bool('ready_%s_%d' % (f, self.n)): ready.append(f)
    if flagged:
      return ready + flagged, [], []          # a pending wake-up byte makes select return at once, together with whatever else is ready
    if ready:
      hi = timeout if timeout is not None else 1000
      dt = ctx.int('dt%d' % self.n, 0, 100000)
      ctx.assume(dt <= hi)
      self.clock.now = self.clock.now + dt
      return ready, [], []
    if timeout is None: timeout = 2000
    self.clock.now = self.clock.now + timeout
    return [], [], []
  def __getattr__(self, n):
    import select as _s
    return getattr(_s, n)


def make_sched(ctx, budget=6):
  env.quiet()
  R = ctx.pox('pox.lib.recoco.recoco')
  U = ctx.pox('pox.lib.util')
  clock = env.Clock(1000)
  R.time = clock
  fs = FakeSelect(ctx, clock, budget)
  R.select = fs
  real_pinger = U.makePinger
  U.makePinger = lambda: Pinger()
  R.pox.lib.util.makePinger = U.makePinger
  s = R.Scheduler(isDefaultScheduler=True, startInThread=False, threaded_selecthub=False)     # pingers stay in-memory flags (CallLaterTask makes one too)
  R.defaultScheduler = s
  s._random = lambda: 0
  return R, s, clock, fs


def drive(s, steps, fs=None):
  """the body of Scheduler.run(), bounded"""
  for _ in range(steps):
    if s._hasQuit: return True
    if len(s._ready) == 0:
      hub = s._selectHub
      if not hub._tasks and hub._incoming.empty(): return True      # quiescent: nothing can ever wake up
      if fs is not None and fs.n > fs.budget and hub._incoming.empty() and all(v[4] is None for v in hub._tasks.values()) \
         and not any(isinstance(f, Pinger) and f.flag for v in hub._tasks.values() for f in (v[1] or [])) and not hub._pinger.flag:
        return True                                                  # only untimed waits left and the stub reports no more readiness
      s._selectHub.idle()
    else:
      s.cycle()
  return False


class TaskAbort(BaseException):
  pass


EXC_KINDS = [RuntimeError, TaskAbort, SystemExit, KeyboardInterrupt, StopIteration]
KINDS = ['zero', 'sleep', 'sleep_past', 'select_t', 'select_none', 'block', 'raise', 'busy']


def h_tasks(ctx, prog, lowprio=False):
  """prog: tuple of per-task tuples of yield kinds"""
  R, s, clock, fs = make_sched(ctx)
  trace = []          # (task, step, clock at start, value received)
  active = [0]
  reqs = {}           # (task, step) -> (kind, request time, duration)
  out = sys.stdout; sys.stdout = io.StringIO(); err = sys.stderr; sys.stderr = io.StringIO()
  def body(ti, kinds):
    def gen():
      got = None
      for si, k in enumerate(kinds):
        active[0] += 1
        trace.append((ti, si, clock.now, got, active[0]))
        active[0] -= 1
        if k == 'zero': reqs[(ti, si)] = ('zero', clock.now, 0); got = yield 0
        elif k == 'sleep':
          d = ctx.int('d_%d_%d' % (ti, si), 1, 5000); reqs[(ti, si)] = ('sleep', clock.now, d); got = yield R.Sleep(d)
        elif k == 'select_t':
          t = ctx.int('t_%d_%d' % (ti, si), 1, 5000); reqs[(ti, si)] = ('select', clock.now, t)
          # the ways a caller may spell the same wait: descriptors as a list or as another collection, the timeout positional or by keyword
          form = int(ctx.int('selform_%d_%d' % (ti, si), 0, 2)) if (ti == 0 and 'select_t' not in kinds[:si]) else 0      # (first timed wait of task 0; the others use the list form)
          if form == 0: got = yield R.Select(['fd%d' % ti], None, None, t)
          elif form == 1: got = yield R.Select(('fd%d' % ti,), None, None, t)
          else: got = yield R.Select(('fd%d' % ti,), None, None, timeout=t)
        elif k == 'select_none': reqs[(ti, si)] = ('select', clock.now, None); got = yield R.Select(['fd%d' % ti], None, None)
        elif k == 'busy':
          # a long time slice: the clock moves on while this task runs (other tasks' deadlines may pass before the hub is consulted)
          clock.now = clock.now + ctx.int('busy_%d_%d' % (ti, si), 0, 8000); reqs[(ti, si)] = ('zero', clock.now, 0); got = yield 0
        elif k == 'sleep_past':
          # a wake-up time that has already passed (a fixed-rate loop that fell behind): nothing to wait for, but the slice is given up
          reqs[(ti, si)] = ('zero', clock.now, 0); got = yield R.Sleep(clock.now - ctx.int('behind_%d_%d' % (ti, si), 1, 1000), absoluteTime=True)
        elif k == 'block': reqs[(ti, si)] = ('block', clock.now, None); got = yield False
        elif k == 'raise':
          # whatever a task raises - also exceptions outside the Exception hierarchy (a task calling sys.exit(), a library's BaseException subclass)
          reqs[(ti, si)] = ('raise', clock.now, None); raise EXC_KINDS[int(ctx.int('exc_%d_%d' % (ti, si), 0, len(EXC_KINDS) - 1))]("task failure")
      active[0] += 1
      trace.append((ti, len(kinds), clock.now, got, active[0]))
      active[0] -= 1
    return gen
  if lowprio:
    # tasks below priority 1 are picked by lot: every outcome of the first eight draws is explored (a task that loses goes to the back of
    # the queue); whatever the draws, each step runs once, in order, and sleeps are honoured
    rolls = [0]
    def rnd():
      rolls[0] += 1
      if rolls[0] > 8: return 0
      return 0.9 if bool(ctx.bool('lose%d' % rolls[0])) else 0.1
    s._random = rnd
  try:
    tasks = []
    for ti, kinds in enumerate(prog):
      t = R.Task(target=body(ti, kinds))
      if lowprio: t.priority = 0.5
      t.start(s); tasks.append(t)
    escaped = None
    try:
      done = drive(s, 80, fs)
    except BaseException as ex:
      if type(ex).__module__.startswith('symx'): raise
      escaped = ex; done = False
  finally:
    sys.stdout = out; sys.stderr = err
  ctx.check('a failing task is descheduled - nothing it raises escapes the scheduler', escaped is None)
  ctx.check('driver reached quiescence', done)
  for ti, kinds in enumerate(prog):
    mine = [x for x in trace if x[0] == ti]
    ctx.check('task %d: steps in program order, once each' % ti, [x[1] for x in mine] == list(range(len(mine))))
    ctx.check('task %d: never re-entrant' % ti, all(x[4] == 1 for x in mine))
    # how far must it have come?
    expect = 0
    for si, k in enumerate(kinds):
      expect = si + 1
      if k in ('block', 'raise'): break
      if k == 'select_none' and fs.n > fs.budget and len(mine) <= si + 1: break      # never became ready within the stub's budget
    else:
      expect = len(kinds) + 1
    if all(k not in ('select_none',) for k in kinds):
      ctx.check('task %d: every runnable step eventually ran' % ti, len(mine) == expect)
    else:
      ctx.check('task %d: did not run past a blocking point' % ti, len(mine) <= expect)
    for x in mine[1:]:
      si = x[1] - 1
      kind, t0, d = reqs[(ti, si)]
      if kind == 'sleep':
        ctx.check('task %d step %d: not resumed before its sleep time' % (ti, si), x[2] >= t0 + d)
      elif kind == 'select':
        rv = x[3]
        ok_shape = isinstance(rv, tuple) and len(rv) == 3
        ctx.check('task %d step %d: select result shape' % (ti, si), ok_shape)
        if ok_shape:
          if rv[0]: ctx.check('task %d step %d: woken with exactly its ready fd' % (ti, si), list(rv[0]) == ['fd%d' % ti] and not rv[1] and not rv[2])
          else: ctx.check('task %d step %d: timed-out wait not resumed early' % (ti, si), d is not None and x[2] >= t0 + d)
  if not lowprio and all(k in ('zero', 'sleep_past') for kinds in prog for k in kinds) and len(prog) == 2 and len(prog[0]) == len(prog[1]):     # (tasks below priority 1 are picked by lot: no turn-taking there)
    # both tasks are runnable all the time: the scheduler alternates between them - a task that yields (also by an overdue sleep) waits for
    # the other one's step before it gets its next slice
    order = [x[0] for x in trace]
    ctx.check('two always-runnable tasks take turns', all(a != b for a, b in zip(order, order[1:])))
    ctx.witness('fair')
  ctx.witness('done')


def h_timer(ctx, recurring, cancel_after, start='now', absolute=False):
  R, s, clock, fs = make_sched(ctx, budget=0)
  fires = []
  iv = ctx.int('interval', 1, 5000)
  out = sys.stdout; sys.stdout = io.StringIO()
  try:
    t0 = clock.now
    def cb():
      fires.append(clock.now)
      if cancel_after == 'return_false' and len(fires) == 2: return False
      if cancel_after == 'returns_falsy':            # only the literal False stops a self-stoppable timer: 0, 0.0, '', None, [] do not
        return [0, 0.0, '', None, []][len(fires) % 5]
    if start == 'now' and not absolute:
      tm = R.Timer(iv, cb, recurring=recurring, scheduler=s)
    else:
      # built first, started later (started=False ... .start()), and/or an absolute wake-up time: the delay of a relative timer counts
      # from start(), an absolute one fires at its instant however late it is started
      built = clock.now
      tm = R.Timer((built + iv) if absolute else iv, cb, absoluteTime=absolute, recurring=recurring, scheduler=s, started=(start == 'now'))
      if start != 'now':
        gap = ctx.int('gap', 0, 10000)
        clock.now = clock.now + gap
        ctx.check('a timer that was not started does not fire', fires == [] and drive(s, 3) is True and fires == [])
        tm.start(s)
        if gap > iv: ctx.witness('started-after-interval')
      t0 = built if absolute else clock.now
    if cancel_after == 'cancel_before':
      tm.cancel()
    for _ in range(40):
      if len(fires) >= 3 and cancel_after == 'cancel_at_3': tm.cancel()
      if drive(s, 1): break
      if len(fires) >= 5: break
  finally:
    sys.stdout = out
  if cancel_after == 'cancel_before':
    ctx.check('cancelled timer never fires', fires == [])
  elif not recurring:
    ctx.check('one-shot timer fires exactly once', len(fires) == 1)
    if fires: ctx.check('one-shot timer not early', fires[0] >= t0 + iv)
  else:
    exp = 2 if cancel_after == 'return_false' else 3 if cancel_after == 'cancel_at_3' else 5
    ctx.check('recurring timer fires until stopped', len(fires) == exp)
    prev = t0
    for f in fires:
      ctx.check('recurring timer period respected', f >= prev + iv); prev = f
  ctx.witness('done')


def h_epoll(ctx, ncalls, hangup=False):
  """EpollSelect.select (the epoll-backed select hub) against the select() contract over a sequence of calls: a model epoll object (register /
  modify / unregister with their error behaviour, poll) stands for the kernel; per call the membership of a socket-like object in the read and
  write lists is solver-chosen (a second, raw fd stays in the read list like the hub's pinger) and either everything or nothing is ready."""
  import select as real_select
  E = ctx.pox('pox.lib.epoll_select')
  IN, OUT = real_select.EPOLLIN, real_select.EPOLLOUT
  class FakeEpoll:
    def __init__(self): self.reg = {}; self.ready = {}; self.hup = set()
    def register(self, fd, mask):
      if fd in self.reg: raise FileExistsError(17, 'File exists')
      self.reg[fd] = mask
    def modify(self, fd, mask):
      if fd not in self.reg: raise FileNotFoundError(2, 'No such file or directory')
      self.reg[fd] = mask
    def unregister(self, fd):
      if fd not in self.reg: raise FileNotFoundError(2, 'No such file or directory')
      del self.reg[fd]
    def poll(self, timeout=None):
      out = []
      for fd, mask in self.reg.items():
        ev = self.ready.get(fd, 0) & mask
        if fd in self.hup: ev |= real_select.EPOLLHUP        # the kernel reports hang-up / error whatever the interest mask says
        if ev: out.append((fd, ev))
      return out
    def close(self): pass
  class SelectModule:
    def __getattr__(self, n): return getattr(real_select, n)
    def epoll(self): return fake
  fake = FakeEpoll()
  saved = E.select
  E.select = SelectModule()
  try:
    es = E.EpollSelect()
    class Obj:
      def fileno(self): return 7
      def __repr__(self): return '<obj 7>'
    o = Obj(); raw = 9
    for i in range(ncalls):
      inr = bool(ctx.bool('obj_in_read_list_%d' % i)); inw = bool(ctx.bool('obj_in_write_list_%d' % i))
      allready = bool(ctx.bool('everything_ready_%d' % i))
      rl = ([o] if inr else []) + [raw]; wl = [o] if inw else []
      fake.ready = {7: (IN | OUT), 9: IN} if allready else {}
      if hangup and i == ncalls - 1:
        # the last call finds the object's peer gone (EPOLLHUP, with or without EPOLLIN): as with select(), nothing that was not in the
        # exceptional list is reported there, and a member of the read list is reported readable (reading will not block: end of stream)
        inx = bool(ctx.bool('obj_in_x_list')); fake.hup = {7}
        fake.ready = {7: IN if bool(ctx.bool('hup_with_in')) else 0}
        r, w, x = es.select(rl, wl, [o] if inx else [], 0)
        ctx.check('hang-up: only members of the exceptional list are reported exceptional', all(e is o and inx for e in x))
        if inr: ctx.check('hang-up: a member of the read list is reported readable', any(e is o for e in r))
        ctx.check('hang-up: results are members of the lists they are reported in', all(e is o and inr for e in r) and all(e is o and inw for e in w))
        ctx.witness('hangup')
        continue
      r, w, x = es.select(rl, wl, [], 0)
      ctx.check('call %d: readable result == ready members of the read list' % i, sorted(map(repr, r)) == sorted(map(repr, rl if allready else [])))
      ctx.check('call %d: writable result == ready members of the write list' % i, list(w) == (wl if allready else []))
      ctx.check('call %d: no exceptional conditions reported' % i, list(x) == [])
      want = {9: IN | real_select.EPOLLPRI}
      if inr or inw: want[7] = ((IN | real_select.EPOLLPRI) if inr else 0) | (OUT if inw else 0)
      ctx.check('call %d: kernel interest set == what the lists ask for' % i, fake.reg == want)
  finally:
    E.select = saved
  ctx.witness('done')


class SubErr(Exception):
  def __init__(self, tag): Exception.__init__(self, tag); self.tag = tag


def h_subtasks(ctx, depth, ops, siblings=False, top='class'):
  """nested task_function / Again calls, `depth` levels below a top-level task; ops[k] says where level k makes an extra blocking call
  ('' none, 'b' before its sub-call, 'a' after it, 'ba' both).  Each level either returns a value, raises, or falls off the end
  (symbolic choice); each caller catches what its callee raised.  The observable log must equal ordinary call/return semantics:
  a sub-task's result or exception reaches exactly its caller.  siblings: a second top-level task runs the same chain concurrently."""
  R, s, clock, fs = make_sched(ctx)
  nt = 2 if siblings else 1
  beh = [[int(ctx.int('beh%d_%d' % (t, k), 0, 2)) for k in range(depth)] for t in range(nt)]
  val = [[ctx.int('val%d_%d' % (t, k), 0, 1000) for k in range(depth)] for t in range(nt)]
  logs = [[] for _ in range(nt)]
  def level(t, k):
    def f():
      r = 0
      if 'b' in ops[k]:
        got = yield R.DummyOp(100 + k)
        logs[t].append((k, 'op', got))
      if k + 1 < depth:
        try:
          r = yield level(t, k + 1)()
          logs[t].append((k, 'got', r))
        except SubErr as e:
          logs[t].append((k, 'caught', e.tag)); r = -1
        if r is None: r = -2
      if 'a' in ops[k]:
        got = yield R.DummyOp(200 + k)
        logs[t].append((k, 'op', got))
      if beh[t][k] == 0: yield val[t][k] + r
      elif beh[t][k] == 1: raise SubErr((t, k))
    return R.task_function(f)
  class Top(R.BaseTask):
    def __init__(self, t): R.BaseTask.__init__(self); self.t = t
    def run(self):
      t = self.t
      try:
        r = yield level(t, 0)()
        logs[t].append(('top', 'got', r))
      except SubErr as e:
        logs[t].append(('top', 'caught', e.tag))
      yield False
  out = sys.stdout; sys.stdout = io.StringIO(); err = sys.stderr; sys.stderr = io.StringIO()
  try:
    if top == 'target':
      # the threading.Thread-like form: Task(target=<generator function>) - the target's try/except around a sub-call works like anybody's
      def top_gen(t):
        try:
          r = yield level(t, 0)()
          logs[t].append(('top', 'got', r))
        except SubErr as e:
          logs[t].append(('top', 'caught', e.tag))
        yield False
      for t in range(nt): R.Task(target=top_gen, args=(t,)).start(s)
    else:
      for t in range(nt): Top(t).start(s)
    drive(s, 200, fs)
  finally:
    sys.stdout = out; sys.stderr = err
  # reference: plain nested calls
  for t in range(nt):
    ref = []
    def call(k):
      r = 0
      if 'b' in ops[k]: ref.append((k, 'op', 100 + k))
      if k + 1 < depth:
        try:
          r = call(k + 1); ref.append((k, 'got', r))
        except SubErr as e:
          ref.append((k, 'caught', e.tag)); r = -1
        if r is None: r = -2
      if 'a' in ops[k]: ref.append((k, 'op', 200 + k))
      if beh[t][k] == 0: return val[t][k] + r
      if beh[t][k] == 1: raise SubErr((t, k))
      return None
    try:
      r = call(0); ref.append(('top', 'got', r))
    except SubErr as e:
      ref.append(('top', 'caught', e.tag))
    got = logs[t]
    ctx.check('task %d: number of call/return events' % t, len(got) == len(ref))
    for a, b in zip(got, ref):
      same = a[0] == b[0] and a[1] == b[1]
      ctx.check('task %d: each result / exception reaches exactly its caller, in call order' % t, same and (a[2] is b[2] if (a[2] is None or b[2] is None) else ctx.Eq(a[2], b[2]) if not isinstance(b[2], tuple) else a[2] == b[2]))
  ctx.witness('done')
  if any(1 in b for b in beh): ctx.witness('raised')


def obligations(tier):
  thorough = tier != 'quick'
  progs = []
  singles = [('zero', 'sleep', 'zero'), ('sleep', 'select_t'), ('select_t', 'sleep', 'zero'), ('select_none', 'zero'), ('zero', 'block'), ('sleep', 'raise', 'zero'),
             ('select_t', 'select_t'), ('sleep', 'sleep', 'sleep'), ('busy', 'zero'), ('zero', 'busy', 'busy')]
  for a in singles: progs.append((a,))
  pairs = [(0, 1), (1, 2), (2, 5), (3, 0), (4, 1), (5, 2), (6, 0), (7, 6), (1, 1), (2, 2)]
  pairs += [(a, b) for a in range(10) for b in range(10) if (a, b) not in pairs and a <= b]
  if thorough: pairs += [(a, b) for a in range(10) for b in range(10) if a > b]
  for a, b in pairs: progs.append((singles[a], singles[b]))
  progs += [(('sleep_past', 'sleep_past', 'sleep_past'), ('zero', 'zero', 'zero')), (('zero', 'sleep_past', 'zero'), ('sleep_past', 'zero', 'sleep_past'))]
  low = [(('zero', 'sleep', 'zero'), ('sleep', 'zero')), (('zero', 'zero'), ('zero', 'block')), (('zero', 'zero', 'zero'), ('zero', 'zero', 'zero'))]
  timers = [dict(recurring=False, cancel_after='never'), dict(recurring=False, cancel_after='cancel_before'), dict(recurring=True, cancel_after='never'),
            dict(recurring=True, cancel_after='return_false'), dict(recurring=True, cancel_after='cancel_at_3'), dict(recurring=True, cancel_after='returns_falsy'),
            dict(recurring=False, cancel_after='never', start='deferred'), dict(recurring=True, cancel_after='cancel_at_3', start='deferred'),
            dict(recurring=False, cancel_after='never', absolute=True), dict(recurring=False, cancel_after='never', start='deferred', absolute=True),
            dict(recurring=False, cancel_after='cancel_before', start='deferred')]
  sub = [dict(depth=1, ops=['']), dict(depth=1, ops=['b']), dict(depth=2, ops=['', '']), dict(depth=2, ops=['b', 'a']), dict(depth=2, ops=['a', 'b']),
         dict(depth=3, ops=['', 'b', '']), dict(depth=3, ops=['ba', '', 'b']), dict(depth=2, ops=['b', 'b'], siblings=True)]
  sub += [dict(depth=1, ops=['b'], top='target'), dict(depth=2, ops=['b', 'a'], top='target')]
  if thorough: sub += [dict(depth=3, ops=['a', 'ba', 'a']), dict(depth=4, ops=['', 'b', 'a', '']), dict(depth=3, ops=['b', '', 'a'], siblings=True)]
  BOUNDS[tier] = dict(subtask_chains=[(c['depth'], c['ops'], c.get('siblings', False)) for c in sub], task_programs=len(progs), yields_per_task="2..3 from %s" % KINDS, durations="1..5000 ms symbolic", clock_advance="symbolic per select call",
                      ready_sets="symbolic per select call (first 6 calls)", timers=[(t['recurring'], t['cancel_after'], t.get('start', 'now'), 'absolute' if t.get('absolute') else 'relative') for t in timers])
  return [
    Obligation('O1_tasks', h_tasks, [dict(prog=p) for p in progs] + [dict(prog=p, lowprio=True) for p in low], witnesses=('done',), max_decisions=20000, mode='int',
               desc='execution trace of task programs under symbolic time / readiness'),
    Obligation('O2_timers', h_timer, timers, witnesses=('done',), max_decisions=20000, mode='int', desc='one-shot / recurring / cancelled / self-stopping timers'),
    Obligation('O4_epoll', h_epoll, [dict(ncalls=3), dict(ncalls=2, hangup=True)] + ([dict(ncalls=4), dict(ncalls=3, hangup=True)] if thorough else []), witnesses=('done', 'hangup'), max_decisions=20000, mode='int',
               desc='EpollSelect.select over a model epoll object: result lists and kernel interest set follow the read/write lists across calls'),
    Obligation('O3_subtasks', h_subtasks, sub, witnesses=('done', 'raised'), max_decisions=20000, mode='int',
               desc='task_function / Again: nested sub-task calls behave like calls - result or exception reaches exactly the caller'),
  ]
