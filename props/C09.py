"""C09 - connection lifecycle events and the connection registry stay consistent."""
from symx.run import Obligation
from props import env

CLAIM = {
 'technique': "bounded symbolic execution of the real handshake, disconnect and registry code with z3 (symx, QF_BV): symbolic dpids (aliasing forks), xids, error codes and loss points",
 'text': "Handshake traffic reaches the real Connection.read as bytes: hello, features reply (symbolic 64-bit dpid), then barrier reply or error with "
         "symbolic xid/type/code, interleaved with port-status, echo and packet-in messages, with connection loss at a symbolic point. z3 proves "
         "ConnectionUp is raised exactly once and only after features and a matching barrier reply (or the barrier-unsupported error), early "
         "port-status messages are delivered after it in arrival order, ConnectionDown exactly once for every announced connection that is lost and "
         "never otherwise. With two connections whose dpids may be equal (reconnect before the stale connection closes) and every close order, the "
         "registry maps exactly the dpids with a live handshaken connection to the most recent one and sendToDPID writes only to its socket."
         " Also: a ConnectionDown listener that closes the connection itself (re-entrant) is part of every scenario. O3_registry3: three connections with symbolic dpids, connects / losses / reconnects interleaved.",
 'note': "Trusted: CPython, z3, symx proxies/shims (SymDict-backed ConnectionDict), scripted sockets; the I/O loop's reaction to read()==False "
         "(close()) is applied by the harness as the loop body does. Bounded: 2 connections, the listed message scripts.",
}
EXPLANATION = ("Real HandshakeOpenFlowHandlers/_finish_connecting/DefaultOpenFlowHandlers, Connection.read/close/disconnect/send, "
               "OpenFlowNexus._connect/_disconnect/sendToDPID/getConnection and OpenFlowConnectionArbiter.getNexus executed on byte streams with "
               "symbolic dpids/xids/codes; lifecycle and registry assertions decided by z3 per path.")
FUNCTIONS = ["pox.openflow.of_01.HandshakeOpenFlowHandlers.*/_finish_connecting", "DefaultOpenFlowHandlers.handle_PORT_STATUS",
             "Connection.__init__/read/close/disconnect/send", "pox.openflow.OpenFlowNexus._connect/_disconnect/sendToDPID/getConnection/ConnectionDict",
             "OpenFlowConnectionArbiter.getNexus"]
BOUNDS = {}
OUTSIDE = ["more than 2 connections", "TLS", "the accept loop itself (C10 drives it)", "port-status messages that arrive before the features reply "
           "(the features reply supersedes them; POX drops them by design)"]
ASSUMPTIONS = ["recv/send scripted; deferred sender idle; when read() returns False the harness calls close() as OpenFlow_01_Task.run does"]


class Dummy:
  sending = False
  def send(self, con, data): pass


def setup(ctx):
  core = env.get_core()
  of01 = ctx.pox('pox.openflow.of_01'); of = ctx.pox('pox.openflow.libopenflow_01'); ofp = ctx.pox('pox.openflow')
  of01.deferredSender = Dummy()
  of01.time = env.Clock(100)
  of.generate_xid = of.xid_generator()          # deterministic xids per path (and in the replay interpreter)
  of01.Connection.ID = 0
  nexus = ofp.OpenFlowNexus()
  core.components['openflow'] = nexus
  core.components['OpenFlowConnectionArbiter'] = ofp.OpenFlowConnectionArbiter(default=False)
  log = []
  nexus.addListenerByName('ConnectionUp', lambda e: log.append(('up', e.connection)))
  nexus.addListenerByName('ConnectionDown', lambda e: log.append(('down', e.connection)))
  # an application that tidies up in its ConnectionDown handler by closing the connection itself (re-entrant use while the loss is being
  # announced): the loss is still announced once
  nexus.addListenerByName('ConnectionDown', lambda e: e.connection.close(), priority=-1)
  nexus.addListenerByName('PortStatus', lambda e: log.append(('port', e.connection, e.ofp.desc.port_no)))
  return core, of01, of, nexus, log


def decode_sent(of, of01, sock):
  """messages the controller wrote (each send() carries whole messages); chunks with symbolic content (echo replies) are skipped"""
  out = []
  for chunk in sock.sent:
    if not isinstance(chunk, (bytes, bytearray)):
      chunk = chunk.simplified() if hasattr(chunk, 'simplified') else chunk
      if not isinstance(chunk, (bytes, bytearray)): continue
    data = bytes(chunk); off = 0
    while off + 8 <= len(data):
      t = data[off + 1]; ln = (data[off + 2] << 8) | data[off + 3]
      if ln < 8: break
      o2, m = of01.unpackers[t](data, off)
      out.append(m); off += ln
  return out


def barrier_xid(of, of01, sock):
  # the handshake awaits the reply to the barrier it sent last (a repeated features reply restarts that step)
  r = None
  for m in decode_sent(of, of01, sock):
    if isinstance(m, of.ofp_barrier_request): r = m.xid
  return r


HELD = [None]

def feed(con, sock, msg):
  """deliver one message; returns False if the connection told the loop to drop it (the loop then closes it).
  While HOLD is set the bytes are only queued: they arrive in the same recv() chunk as the messages that follow (TCP coalescing)."""
  data = msg.pack()
  if HELD[0] is not None: data = HELD[0] + data
  if HOLD[0]:
    HELD[0] = data
    return True
  HELD[0] = None
  sock.feed(data)
  r = con.read()
  if r is False: con.close()
  return r


HOLD = [False]

def h_handshake(ctx, script):
  """script letters: H hello, F features reply, p port_status, e echo request, i packet_in, B barrier reply (symbolic xid),
  E error (symbolic xid/type/code), L connection loss"""
  core, of01, of, nexus, log = setup(ctx)
  addrs = ctx.pox('pox.lib.addresses')
  sock = env.FakeSocket(eof=False)
  con = of01.Connection(sock)
  conlog = []
  con.addListenerByName('ConnectionUp', lambda e: conlog.append('up'))
  con.addListenerByName('ConnectionDown', lambda e: conlog.append('down'))
  dpid = ctx.int('dpid', 0, (1 << 64) - 1)
  have_features = False; up_expected = False; alive = True; ports_after_features = []; pn = 0
  HOLD[0] = False; HELD[0] = None
  for i, ch in enumerate(script):
    if not alive: break
    if ch == '+': continue
    HOLD[0] = script[i + 1:i + 2] == '+'            # 'x+y': x and y arrive in one recv() chunk
    if HOLD[0]: ctx.witness('coalesced')
    if ch == 'H': alive = feed(con, sock, of.ofp_hello()) is not False
    elif ch == 'F':
      fr = of.ofp_features_reply(datapath_id=dpid, xid=ctx.int('fx', 0, 0xffffffff))
      fr.ports.append(of.ofp_phy_port(port_no=1, name='p1', hw_addr=addrs.EthAddr(b'\x02\x00\x00\x00\x00\x01')))
      alive = feed(con, sock, fr) is not False
      have_features = True
    elif ch == 'p':
      pn += 1
      no = ctx.int('pno%d' % i, 2, 0xff00)
      ps = of.ofp_port_status(reason=0, desc=of.ofp_phy_port(port_no=no, name='q%d' % pn, hw_addr=addrs.EthAddr(bytes([2, 0, 0, 0, 1, pn]))))
      alive = feed(con, sock, ps) is not False
      if have_features or up_expected: ports_after_features.append(no)
    elif ch == 'e':
      alive = feed(con, sock, of.ofp_echo_request(xid=ctx.int('ex%d' % i, 0, 0xffffffff))) is not False
    elif ch == 'i':
      alive = feed(con, sock, of.ofp_packet_in(in_port=1, data=b'\x00' * 14)) is not False
    elif ch in 'BE':
      bx = barrier_xid(of, of01, sock)
      x = ctx.int('rx%d' % i, 0, 0xffffffff)
      if ch == 'B':
        m = of.ofp_barrier_reply(xid=x)
        ok = have_features and bx is not None and bool(x == bx)
        bad = have_features and bx is not None and not ok
      else:
        et = ctx.int('etype%d' % i, 0, 5); ec = ctx.int('ecode%d' % i, 0, 8)
        m = of.ofp_error(xid=x, type=et, code=ec, data=b'')
        ok = have_features and bx is not None and bool(ctx.And(x == bx, et == 1, ec == 1))
        bad = False
      was_up = up_expected
      if HOLD[0] and bad: ctx.assume(False)          # inside a coalesced chunk only the well-behaved barrier reply is explored
      alive = feed(con, sock, m) is not False
      if ok and not was_up: up_expected = True; ctx.witness('up')
      if bad and not was_up:
        ctx.witness('bad-barrier')
        ctx.check('wrong barrier xid aborts the handshake', con.disconnected)
        alive = False
    elif ch == 'X':
      # write-side loss: a controller send hits a fatal socket error (EPIPE); the connection marks itself disconnected with the event
      # deferred, and the select loop then finds it dead and closes it - ConnectionDown must still be raised, once
      import errno
      sock.send_script = [OSError(errno.EPIPE, 'Broken pipe')]
      con.send(of.ofp_barrier_request())
      ctx.check('a fatal send error marks the connection disconnected', con.disconnected)
      sock.eof = True
      r = con.read()
      con.close(); alive = False
      ctx.witness('lost')
    elif ch == 'L':
      sock.eof = True
      r = con.read()
      ctx.check('read reports loss', r is False)
      con.close(); alive = False
      ctx.witness('lost')
    nups = sum(1 for x in log if x[0] == 'up')
    if not HOLD[0]: ctx.check('ConnectionUp count so far', nups == (1 if up_expected else 0))
  ups = [k for k, x in enumerate(log) if x[0] == 'up']
  ctx.check('ConnectionUp exactly once iff handshake completed', len(ups) == (1 if up_expected else 0))
  ctx.check('ConnectionUp on the connection object too', conlog.count('up') == (1 if up_expected else 0))
  if up_expected and ups:
    got = [x[2] for x in log if x[0] == 'port']
    ctx.check('port-status events: none lost, arrival order', len(got) == len(ports_after_features) and all(bool(a == b) for a, b in zip(got, ports_after_features)))
    ctx.check('port-status events only after ConnectionUp', all(k > ups[0] for k, x in enumerate(log) if x[0] == 'port'))
    ctx.check('registered while alive', (not alive) or nexus.getConnection(dpid) is con)
  else:
    ctx.check('no port-status event without ConnectionUp', not any(x[0] == 'port' for x in log))
  lost = not alive or con.disconnected
  if not lost:
    # end of script: now lose the connection and look at the Down events
    sock.eof = True; con.read(); con.close()
  downs = sum(1 for x in log if x[0] == 'down')
  if up_expected:
    ctx.check('ConnectionDown exactly once for an announced connection that is lost', downs == 1)
    ctx.check('ConnectionDown on the connection object too', conlog.count('down') == 1)
  else:
    # the statement is silent about connections that were never announced (POX raises Down once the dpid is known)
    ctx.check('at most one ConnectionDown', downs <= 1)
  ctx.check('not registered after loss', nexus.getConnection(dpid) is None)
  con.close()
  ctx.check('close is idempotent for events', sum(1 for x in log if x[0] == 'down') == downs)


def handshake(ctx, of01, of, sock, con, dpid, addrs, upto='barrier'):
  feed(con, sock, of.ofp_hello())
  fr = of.ofp_features_reply(datapath_id=dpid)
  feed(con, sock, fr)
  if upto == 'features': return        # the datapath id is known, the handshake is not finished
  bx = barrier_xid(of, of01, sock)
  feed(con, sock, of.ofp_barrier_reply(xid=bx))


def h_registry(ctx, order, half=False):
  """order: string over 'a' (close connection 1), 'b' (close connection 2), 's' (sendToDPID probe) applied after both handshakes;
  connection 2 handshakes after connection 1 (reconnect when the dpids are equal)"""
  HOLD[0] = False; HELD[0] = None          # (module state of feed(): a path aborted inside a coalesced chunk must not leak into this one)
  core, of01, of, nexus, log = setup(ctx)
  addrs = ctx.pox('pox.lib.addresses')
  d1 = ctx.int('dpid1', 0, (1 << 64) - 1); d2 = ctx.int('dpid2', 0, (1 << 64) - 1)
  s1 = env.FakeSocket(eof=False); c1 = of01.Connection(s1)
  handshake(ctx, of01, of, s1, c1, d1, addrs)
  ctx.check('c1 registered', nexus.getConnection(d1) is c1)
  s2 = env.FakeSocket(eof=False); c2 = of01.Connection(s2)
  # half: the second connection only gets as far as its features reply (dpid known, never announced) before it is lost
  handshake(ctx, of01, of, s2, c2, d2, addrs, upto='features' if half else 'barrier')
  same = bool(d1 == d2)
  ctx.witness('same-dpid' if same else 'different-dpid')
  live = {1: True, 2: True}
  def expected(d):
    """most recent live handshaken connection for dpid d"""
    if live[2] and not half and bool(d == d2): return c2
    if live[1] and bool(d == d1): return c1
    return None
  def check_registry(tag):
    if same and live[1] and not live[2] and not half:
      tag = '[stale-survivor] ' + tag      # newer connection of the same dpid died first, the stale one is still open (known finding)
    for name, d in (('d1', d1), ('d2', d2)):
      ctx.check('%s: registry maps %s to the most recent live connection' % (tag, name), nexus.getConnection(d) is expected(d))
    n = len(nexus.connections)
    exp_n = len({id(x) for x in (expected(d1), expected(d2)) if x is not None})
    ctx.check('%s: registry size' % tag, n == exp_n)
  check_registry('after handshakes')
  for k, ch in enumerate(order):
    if ch == 'a' and live[1]:
      s1.eof = True; c1.read(); c1.close(); live[1] = False
    elif ch == 'b' and live[2]:
      s2.eof = True; c2.read(); c2.close(); live[2] = False
    elif ch == 's':
      probe = d1
      n1, n2 = len(s1.sent), len(s2.sent)
      r = nexus.sendToDPID(probe, of.ofp_echo_request(xid=0x5e5e).pack())
      tgt = expected(probe)
      pre = '[stale-survivor] ' if (same and live[1] and not live[2] and not half) else ''
      ctx.check(pre + 'sendToDPID result', r == (tgt is not None))
      ctx.check(pre + 'sendToDPID reaches only the most recent live connection',
                (len(s1.sent) - n1, len(s2.sent) - n2) == ((1, 0) if tgt is c1 else (0, 1) if tgt is c2 else (0, 0)))
    check_registry('after %s#%d' % (ch, k))
  downs = [x[1] for x in log if x[0] == 'down']
  ctx.check('ConnectionDown once per lost connection', downs.count(c1) == (0 if live[1] else 1) and (downs.count(c2) <= 1 if half else downs.count(c2) == (0 if live[2] else 1)))
  ups = [x[1] for x in log if x[0] == 'up']
  ctx.check('ConnectionUp once per connection', ups.count(c1) == 1 and ups.count(c2) == (0 if half else 1))


def h_registry3(ctx, order):
  """three connections, each with a symbolic 64-bit dpid (every aliasing pattern); order: 'A'/'B'/'C' = connection 1/2/3 connects and completes its
  handshake, 'a'/'b'/'c' = it is lost, 's' = sendToDPID probe for a solver-chosen one of the three dpids.  Connects, losses and reconnects interleave."""
  HOLD[0] = False; HELD[0] = None
  core, of01, of, nexus, log = setup(ctx)
  addrs = ctx.pox('pox.lib.addresses')
  dp = [ctx.int('dpid%d' % (i + 1), 0, (1 << 64) - 1) for i in range(3)]
  socks = [None] * 3; cons = [None] * 3; live = [False] * 3; rank = [None] * 3; closed_after = [None] * 3
  nup = 0
  def expected(d):
    c = [i for i in range(3) if live[i] and bool(dp[i] == d)]
    return max(c, key=lambda i: rank[i]) if c else None
  def stale(d):
    """a connection of this dpid that handshook after the expected one has been lost meanwhile (the registry keeps one slot per dpid: known finding)"""
    e = expected(d)
    return e is not None and any(rank[i] is not None and not live[i] and rank[i] > rank[e] and bool(dp[i] == d) for i in range(3))
  def check_registry(tag):
    seen = []
    for i in range(3):
      if rank[i] is None: continue
      d = dp[i]; e = expected(d)
      pre = '[stale-survivor] ' if stale(d) else ''
      ctx.check('%s%s: registry maps dpid%d to the most recent live connection' % (pre, tag, i + 1), nexus.getConnection(d) is (cons[e] if e is not None else None))
      if e is not None and e not in seen: seen.append(e)
    pre = '[stale-survivor] ' if any(rank[i] is not None and stale(dp[i]) for i in range(3)) else ''
    ctx.check('%s%s: registry size' % (pre, tag), len(nexus.connections) == len(seen))
  for k, ch in enumerate(order):
    if ch in 'ABC':
      i = 'ABC'.index(ch)
      socks[i] = env.FakeSocket(eof=False); cons[i] = of01.Connection(socks[i])
      handshake(ctx, of01, of, socks[i], cons[i], dp[i], addrs)
      live[i] = True; rank[i] = nup; nup += 1
    elif ch in 'abc':
      i = 'abc'.index(ch)
      if live[i]:
        socks[i].eof = True; cons[i].read(); cons[i].close(); live[i] = False
    elif ch == 's':
      which = int(ctx.int('probe%d' % k, 0, 2))
      if rank[which] is None: continue
      d = dp[which]
      before = [len(x.sent) if x is not None else 0 for x in socks]
      r = nexus.sendToDPID(d, of.ofp_echo_request(xid=0x5e5e).pack())
      e = expected(d)
      pre = '[stale-survivor] ' if stale(d) else ''
      ctx.check(pre + 'sendToDPID result', r == (e is not None))
      got = tuple((len(x.sent) if x is not None else 0) - b for x, b in zip(socks, before))
      ctx.check(pre + 'sendToDPID reaches only the most recent live connection', got == tuple(1 if i == e else 0 for i in range(3)))
    check_registry('after %s#%d' % (ch, k))
  pat = (bool(dp[0] == dp[1]), bool(dp[1] == dp[2]), bool(dp[0] == dp[2]))
  ctx.witness('all-same' if all(pat) else 'all-different' if not any(pat) else 'two-same')
  ups = [x[1] for x in log if x[0] == 'up']; downs = [x[1] for x in log if x[0] == 'down']
  for i in range(3):
    if cons[i] is None: continue
    ctx.check('ConnectionUp once per connection', ups.count(cons[i]) == 1)
    ctx.check('ConnectionDown once per lost connection', downs.count(cons[i]) == (0 if live[i] else 1))


def obligations(tier):
  thorough = tier != 'quick'
  scripts = ['HFB+p', 'HFB+p+e+pL', 'HFp+B+p', 'H+Fp+B+pL', 'H+FB', 'HFE+p', 'HFB+i+p', 'HFp+e+B+p+i+pL', 'HFBX', 'HFpBpX', 'HFX', 'HFB', 'HFE', 'HFpB', 'HFpepB', 'HFpiBp', 'HFBL', 'HFL', 'HL', 'HFpL', 'HBFB', 'FHB', 'HFEB', 'HFBB', 'HFpEpL', 'HpFB', 'HFeBpL']
  if thorough: scripts += ['HFppBpL', 'HFEEB', 'HFpBpBL', 'HFiepEeL', 'HHFFB', 'HFBpLp', 'HFpeipB', 'L', 'HFEpEL']
  orders = ['', 's', 'as', 'bs', 'abs', 'bas', 'sas', 'asbs', 'sbsa']
  orders3 = ['ABCs', 'ABCcsbsa', 'ABaCsbs', 'AaBsCsc', 'ABbCscs', 'ABCasbsc'] + (['ABCbscsa', 'ABCcasb', 'AaBbCcs', 'ABaCbsAs'.replace('As', 's'), 'ABCsasbs'] if thorough else [])
  BOUNDS[tier] = dict(registry3_orders=orders3, handshake_scripts=scripts, legend="x+y: x and y arrive in one recv() chunk; X fatal error on a controller send then loop close, H hello, F features reply(sym dpid), p port_status(sym port), e echo, i packet_in, "
                      "B barrier reply(sym xid), E error(sym xid/type/code), L loss", registry_orders=orders, connections=2)
  return [
    Obligation('O1_handshake', h_handshake, [dict(script=s) for s in scripts], witnesses=('up', 'lost', 'bad-barrier', 'coalesced'), max_decisions=20000,
               desc='ConnectionUp/Down exactly once, ordering of deferred port-status, registry entry, for each handshake script'),
    Obligation('O2_registry', h_registry, [dict(order=o) for o in orders] + [dict(order=o, half=True) for o in ('bs', 'sbs', 'bas', 'abs')], witnesses=('same-dpid', 'different-dpid'), max_decisions=20000,
               desc='two connections with possibly equal dpids: registry == most recent live handshaken connection; sendToDPID target'),
    Obligation('O3_registry3', h_registry3, [dict(order=o) for o in orders3], witnesses=('all-same', 'all-different', 'two-same'), max_decisions=20000,
               desc='three connections (symbolic dpids, all aliasing patterns), connects / losses / reconnects interleaved: registry and sendToDPID follow the most recent live connection'),
  ]
