"""C15 - parsing untrusted frames never fails."""
from symx.run import Obligation
from props import env

CLAIM = {
 'technique': "bounded symbolic execution of the real packet parsers with z3 (symx, QF_BV) on fully symbolic frames",
 'text': "Frames of N fully unconstrained symbolic bytes, and per-protocol templates in which only the dispatch fields (ethertype, IP protocol, UDP "
         "ports, ...) are fixed and everything else - including every length/offset field - is symbolic, at several truncation lengths, are parsed by "
         "the real ethernet()/parse chain. On every feasible path: construction raises nothing, the parsed flags form a prefix of the chain, the "
         "unparsed remainder is raw bytes and a suffix of the input, and str(), dump() and pack() of the result raise nothing (text is checked by "
         "dry rendering: types and argument counts, numerals not expanded)."
         " Also: tunnels nested up to the size of a jumbo frame (65517 bytes in the thorough tier) under the default recursion limit, a bound on the number of pack() calls when re-serialising, and templates for RIP masks, DNS 4-character names, MPTCP options in a full 40-byte option area and ND link-layer-address options of any length. Complete LLDPDUs whose chassis / port ids have network-address and MAC lengths with symbolic subtype and bytes.",
 'note': "Trusted: CPython, z3, symx proxies/shims. Bounded by the stated frame lengths; DNS/DHCP/LLDP/ICMPv6 bodies are reached through templates "
         "only. Known raising paths are listed in known_findings.json and reported as KNOWN-FINDING, any other raising path is a VIOLATION.",
}
EXPLANATION = ("Real ethernet.parse/parse_next and every reachable parse(), __str__/_to_str/dump and pack() executed on symbolic frames; no-exception, "
               "prefix-of-chain and raw-remainder assertions decided by z3 on every path.")
FUNCTIONS = ["pox.lib.packet.ethernet/vlan/llc/arp/ipv4/ipv6/icmp/icmpv6/tcp/udp/dhcp/dns/lldp/mpls/gre/vxlan/igmp/rip/eapol/eap .parse/.hdr/.pack/__str__",
             "packet_base.dump/pack/find"]
BOUNDS = {}
OUTSIDE = ["frames longer than the stated lengths", "IGMPv3 group records cut at an offset that is not a multiple of 4 (IPAddr then parses 1-3 bytes as text)", "numeral expansion in printed text (dry rendering checks types/argument counts only)"]
ASSUMPTIONS = []

ETH = [2, 0, 0, 0, 0, 1, 2, 0, 0, 0, 0, 2]


class PackWorkExceeded(RuntimeError):
  pass


def chain(p):
  out = []
  pb = None
  while p is not None:
    out.append(p)
    if isinstance(p, (bytes, bytearray)) or type(p).__name__ == 'SymBytes': break
    p = getattr(p, 'next', None)
  return out


def examine(ctx, pkt, raw, tag=''):
  import importlib
  pb = importlib.import_module('pox.lib.packet.packet_base').packet_base
  from symx.core import SymBytes, SymStr, dry_render
  ch = chain(pkt)
  flags = []
  for x in ch:
    if isinstance(x, pb): flags.append(bool(getattr(x, 'parsed', False)))
  # parsed flags form a prefix: once a layer failed to parse nothing deeper claims to be parsed
  ok = all(flags[i] or not any(flags[i + 1:]) for i in range(len(flags)))
  ctx.check(tag + 'parsed flags form a prefix of the chain', ok)
  last = ch[-1]
  if not isinstance(last, pb):
    ctx.check(tag + 'innermost remainder is raw bytes', isinstance(last, (bytes, bytearray, SymBytes)))
    ctx.check(tag + 'remainder is not longer than the input', (not isinstance(last, (bytes, bytearray, SymBytes))) or len(last) <= len(raw))
  # printing and re-serialising never raise
  if ctx.sym:
    from symx import sx
    s = sx.str_(pkt); dry_render(s) if isinstance(s, SymStr) else None
    d = pkt.dump(); dry_render(d) if isinstance(d, SymStr) else None
  else:
    str(pkt); pkt.dump()
  # re-serialising does a bounded amount of work: every layer is packed a constant number of times (a checksum routine that packs its
  # payload again doubles the work at every tunnel level: 2^depth packs for a frame of ordinary size)
  layers = sum(1 for x in ch if isinstance(x, pb))
  orig = pb.pack; cnt = [0]
  def counted(self):
    cnt[0] += 1
    if cnt[0] > 4 * layers + 8: raise PackWorkExceeded("more than %d pack() calls for %d layers" % (4 * layers + 8, layers))
    return orig(self)
  pb.pack = counted
  try:
    pkt.pack()
  finally:
    pb.pack = orig
  ctx.witness('examined')


def h_random(ctx, n):
  env.quiet()
  pkt_mod = ctx.pox('pox.lib.packet')
  raw = ctx.bytes('frame', n)
  p = pkt_mod.ethernet(raw)
  examine(ctx, p, raw)


TEMPLATES = {
  # name: (fixed prefix builder, total length list) ; 'S' marks symbolic bytes
  'vlan':      lambda n: ETH + [0x81, 0x00],
  'arp':       lambda n: ETH + [0x08, 0x06],
  'rarp':      lambda n: ETH + [0x80, 0x35],
  'lldp':      lambda n: ETH + [0x88, 0xcc],
  'eapol':     lambda n: ETH + [0x88, 0x8e],
  'mpls':      lambda n: ETH + [0x88, 0x47],
  'ipv6':      lambda n: ETH + [0x86, 0xdd],
  'llc':       lambda n: ETH + [0x00, 0x20],
  'ip':        lambda n: ETH + [0x08, 0x00],
  # LLDPDU whose three mandatory TLV headers are fixed (chassis id len 7, port id len 3, ttl len 2); the bodies of these and the
  # whole 4th TLV (type, length, body) and everything after it are symbolic
  'lldp4':     lambda n: ETH + [0x88, 0xcc],
  # complete LLDPDU (chassis id, port id, TTL, END) whose chassis / port identifiers have the lengths a network address (1 family byte + 4 or 16) or a
  # MAC takes; the subtypes, the family byte and every identifier byte are symbolic
  'lldp_ids_5_5': lambda n: ETH + [0x88, 0xcc], 'lldp_ids_17_5': lambda n: ETH + [0x88, 0xcc], 'lldp_ids_5_17': lambda n: ETH + [0x88, 0xcc], 'lldp_ids_6_17': lambda n: ETH + [0x88, 0xcc],
  # IPv4/TCP segment with a long payload: data offset and the option bytes symbolic, everything else concrete - an option whose length
  # byte reaches far beyond the TCP header
  'tcp_long':  lambda n: ETH + [0x08, 0x00],
  'tcp_mptcp': lambda n: ETH + [0x08, 0x00],
  'tcp_mptcp40': lambda n: ETH + [0x08, 0x00],      # the same with a full 40-byte option area (data offset 15): whatever the parser makes of it must fit back into a TCP header
  # complete DHCP message whose option area holds two long option instances (200 and 100 value bytes) with a *symbolic code*: when the codes
  # coincide the parser concatenates the instances (RFC 3396) into a value longer than 255 bytes, which must still print and re-serialise
  'dhcp_long': lambda n: ETH + [0x08, 0x00],
  # a frame of ordinary size (<= 1500 bytes of payload) made of stacked 802.1Q tags / MPLS labels: every level is another nested parser call.
  # Run under CPython's default recursion limit (1000), which is what a POX process has.
  'vlan_stack': lambda n: ETH + [0x81, 0x00],
  'mpls_stack': lambda n: ETH + [0x88, 0x47],
  # tunnels inside tunnels: Ethernet/IPv4/UDP/VXLAN/Ethernet/..., IPv4/ICMP-unreachable quoting IPv4/ICMP-unreachable/..., IPv4/GRE/IPv4/GRE/... and
  # IPv4/GRE/Ethernet/IPv4/GRE/...; as many levels as fit into a frame of n bytes (n = 9014 is a jumbo frame; a packet-in may carry up to 65517 bytes),
  # parsed under CPython's default recursion limit.  Short ones (a dozen levels) bound the *work* of re-serialising: every layer is packed O(1) times.
  # RIPv2 response with one route entry whose netmask (any 32-bit pattern, contiguous or not) and the low bits of tag and metric are symbolic
  'rip_entry': lambda n: ETH + [0x08, 0x00],
  # DNS response with a CNAME / NS record whose target name is four characters long ("t.co", "a.gl"): id, flags, ttl and record type (2 or 5) symbolic
  'dns_name4': lambda n: ETH + [0x08, 0x00],
  # IPv6 neighbour solicitation with one source/target link-layer address option: option type (1|2) and *length* (1..3 units) symbolic, the
  # ICMPv6 checksum symbolic (so the solver can make it verify), 22 option bytes present
  'nd_lladdr': lambda n: ETH + [0x86, 0xdd],
  'nest_vxlan': lambda n: [], 'nest_icmp': lambda n: [], 'nest_gre': lambda n: [], 'nest_greeth': lambda n: [],
}


def _ip(proto, total): return [0x45, 0, (total >> 8) & 255, total & 255, 0, 1, 0, 0, 64, proto, 0, 0, 10, 0, 0, 1, 10, 0, 0, 2]


def nest(name, n, sym):
  """inside-out construction; sym = 8 symbolic bytes placed in the innermost datagram and the outermost tunnel header"""
  inner = _ip(17, 28) + [sym[0], sym[1], sym[2], sym[3], 0, 8, 0, 0]
  if name == 'nest_vxlan':
    cur = ETH + [0x08, 0x00] + inner
    while len(cur) + 50 <= n:
      v = [0x08, 0, 0, 0, 0, 0, len(cur) & 255, 0] + cur
      u = [sym[4] if len(cur) + 50 > n - 50 else 0x12, 0xb5, 0x12, 0xb5, ((8 + len(v)) >> 8) & 255, (8 + len(v)) & 255, 0, 0] + v
      cur = ETH + [0x08, 0x00] + _ip(17, 20 + len(u)) + u
    return cur
  cur = inner
  per = {'nest_icmp': 28, 'nest_gre': 24, 'nest_greeth': 38}[name]
  while len(cur) + per + 14 <= n:
    last = len(cur) + 2 * per + 14 > n
    if name == 'nest_icmp': body = [3, sym[5] if last else 1, 0, 0, 0, 0, 0, 0] + cur; proto = 1
    elif name == 'nest_gre': body = [0, 0, 0x08, 0x00] + cur; proto = 47
    else: body = [0, 0, 0x65, 0x58] + ETH + [0x08, 0x00] + cur; proto = 47
    cur = _ip(proto, 20 + len(body)) + body
  return ETH + [0x08, 0x00] + cur


def ip_template(proto, sport=None, dport=None):
  def f(n):
    hdr = ETH + [0x08, 0x00, 0x45]
    return hdr
  return f


def h_template(ctx, name, n, proto=None, ports=None):
  env.quiet()
  pkt_mod = ctx.pox('pox.lib.packet')
  pre = TEMPLATES[name](n)
  body = list(ctx.bytes('body', (n - len(pre)) if not name.startswith('nest_') else 8))
  if name == 'ip' and proto is not None and len(body) >= 20:
    body[0] = 0x45                  # version 4, IHL 5 so that the transport parser is reached
    body[6] = body[6] & 0xe0 if False else body[6]
    body[9] = proto
    # fragment offset 0 (flags free) so that the payload is parsed
    body[6] = body[6] & 0xe0; body[7] = 0
    if proto == 2:
      # IGMP: total length concrete (= the frame), so that truncation falls on 4-byte boundaries of the group records; address slices of 1-3
      # bytes would be read as *text* by IPAddr, and inet_aton's classful short forms are not modelled (outside the claim)
      body[2:4] = [(n - 14) >> 8, (n - 14) & 255]
    if ports is not None and len(body) >= 24:
      sp, dp = ports
      if sp is not None: body[20:22] = [sp >> 8, sp & 255]
      if dp is not None: body[22:24] = [dp >> 8, dp & 255]
  if ports is not None and tuple(ports) == (68, 67) and len(body) >= 28 + 240:
    body[28 + 236:28 + 240] = [0x63, 0x82, 0x53, 0x63]      # DHCP magic cookie, so that the option parser is reached; hlen stays symbolic
    for k in range(28 + 44, 28 + 236): body[k] = 0           # sname / file: concrete zeros (only copied)
  if name in ('tcp_long', 'tcp_mptcp', 'tcp_mptcp40'):
    iplen = n - 14
    sym = body
    iph = [0x45, 0, iplen >> 8, iplen & 255, 0, 1, 0, 0, 64, 6, 0, 0, 10, 0, 0, 1, 10, 0, 0, 2]
    if name == 'tcp_long':
      # data offset 6: one 4-byte option word, all four bytes symbolic (a length byte may point far into the 270-byte payload)
      opts = list(sym[0:4]); off = 6
    elif name == 'tcp_mptcp40':
      opts = [30, sym[0], sym[1], sym[2]] + [0, 0, 0, 9] + [1, 1, 1, 1] * 2 + [8, 10, 0, 0, 0, 1, 0, 0, 0, 2] + [2, 4, 5, 180] + [1, 1, 4, 2] + [3, 3, 7, 1] + [0, 0]; off = 15
    else:
      # MPTCP option (kind 30): length, subtype/version, flags and four more bytes symbolic, the rest of a 24-byte option area concrete
      opts = [30, sym[0], sym[1], sym[2]] + list(sym[3:7]) + [1, 2, 3, 4, 5, 6, 7, 8, 9, 10, 11, 12, 13, 14, 15, 16]; off = 11
    body = iph + [0x12, 0x34, 0, 80, 0, 0, 0, 1, 0, 0, 0, 2, off << 4, 0x10, 0x20, 0, 0, 0, 0, 0] + opts + [(k * 7) & 0xff for k in range(n - 14 - 20 - 20 - len(opts))]
  if name == 'dhcp_long':
    sym = body
    codes = [sym[0], ctx.Ite((sym[1] & 1) == 1, sym[0], 60)]          # the second instance repeats the first code, or is a vendor-class option
    opts = []
    for c, ln in zip(codes, (200, 100)): opts += [c, ln] + [(c0 * 13 + ln) & 0xff for c0 in range(ln)]
    opts += [255]
    bootp = [1, 1, 6, 0] + list(sym[3:7]) + [0] * 20 + [2, 0, 0, 0, 0, 1] + [0] * 10 + [0] * 192 + [0x63, 0x82, 0x53, 0x63]
    udplen = 8 + len(bootp) + len(opts); iplen = 20 + udplen
    body = [0x45, 0, iplen >> 8, iplen & 255, 0, 1, 0, 0, 64, 17, 0, 0, 0, 0, 0, 0, 255, 255, 255, 255] + [0, 68, 0, 67, udplen >> 8, udplen & 255, 0, 0] + bootp + opts
  if name == 'nd_lladdr':
    sym = body
    opt = [1 + (sym[2] & 1), 1 + (sym[3] & 3)] + [2, 0, 0, 0, 0, 7] + [0x11] * 16
    icmp = [135, 0, sym[0], sym[1], 0, 0, 0, 0] + [0xfe, 0x80] + [0] * 13 + [2] + opt
    body = [0x60, 0, 0, 0, 0, len(icmp), 58, 255] + [0xfe, 0x80] + [0] * 13 + [1] + [0xff, 0x02] + [0] * 9 + [1, 0xff, 0, 0, 2] + icmp
  if name == 'dns_name4':
    sym = body
    q = [3, 0x77, 0x77, 0x77, 1, 0x78, 0] + [0, 1, 0, 1]                                    # www.x  A IN
    rtype = ctx.Ite((sym[4] & 1) == 1, 5, 2)
    an = [0xc0, 12] + [0, rtype, 0, 1] + list(sym[5:9]) + [0, 6] + [1, 0x74, 2, 0x63, 0x6f, 0]  # -> t.co
    dnsb = [sym[0], sym[1], 0x81 | (sym[2] & 0x04), 0x80 | (sym[3] & 0x0f), 0, 1, 0, 1, 0, 0, 0, 0] + q + an
    body = [0x45, 0, 0, 20 + 8 + len(dnsb), 0, 1, 0, 0, 64, 17, 0, 0, 10, 0, 0, 1, 10, 0, 0, 2] + [0, 53, 0x30, 0x39, 0, 8 + len(dnsb), 0, 0] + dnsb
  if name == 'rip_entry':
    sym = body
    rip = [2, 2, 0, 0] + [0, 2, 0, sym[0], 10, 1, 2, 0] + list(sym[2:6]) + [0, 0, 0, 0] + [0, 0, 0, sym[1] & 15]
    body = [0x45, 0, 0, 20 + 8 + len(rip), 0, 1, 0, 0, 64, 17, 0, 0, 10, 0, 0, 1, 224, 0, 0, 9] + [2, 8, 2, 8, 0, 8 + len(rip), 0, 0] + rip
  deep = name in ('vlan_stack', 'mpls_stack') or name.startswith('nest_')
  if name.startswith('nest_'): pre = []; body = nest(name, n, body)
  if name == 'vlan_stack':
    k = (n - 14 - 4) // 4
    sym = body
    body = []
    for i in range(k): body += ([sym[2 * i], sym[2 * i + 1]] if i < 3 else [0x20 | (i & 15), i & 0xff]) + [0x81, 0x00]
    body += [sym[6], sym[7], sym[8], sym[9]]               # innermost tag: TCI and ethertype symbolic
  if name == 'mpls_stack':
    k = (n - 14) // 4
    sym = body
    body = []
    for i in range(k): body += [0, (i >> 4) & 0xff, ((i & 15) << 4) | (0 if i < k - 1 else 1), 64] if i >= 2 else [sym[4 * i], sym[4 * i + 1], sym[4 * i + 2] & 0xfe, sym[4 * i + 3]]
  if name.startswith('lldp_ids_'):
    cl, pl = [int(x) + 1 for x in name.split('_')[2:]]
    body[0:2] = [2, cl]; body[2 + cl:4 + cl] = [4, pl]
    body[4 + cl + pl:] = [6, 2, body[4 + cl + pl + 2], body[4 + cl + pl + 3], 0, 0]
  if name == 'lldp4' and len(body) >= 18:
    body[0:2] = [2, 7]; body[9:11] = [4, 3]; body[14:16] = [6, 2]
  if name == 'ipv6' and len(body) >= 40:
    # concrete addresses: printing symbolic IPv6 addresses (2^16 zero-run shapes) is C16's subject
    body[8:40] = [0x20, 0x01, 0x0d, 0xb8] + [0] * 11 + [1] + [0xfe, 0x80] + [0] * 13 + [2]
  if name == 'ipv6' and proto is not None and len(body) >= 8:
    body[0] = 0x60 | (body[0] & 0x0f); body[6] = proto
  raw = env.tobytes(ctx, pre + body)
  import sys
  old = sys.getrecursionlimit()
  if deep: sys.setrecursionlimit(1000 + len(__import__('inspect').stack(0)) - 12)       # as if the frame handler ran ~12 frames below the interpreter's top level
  try:
    p = pkt_mod.ethernet(raw)
    examine(ctx, p, raw)
  finally:
    sys.setrecursionlimit(old)


def obligations(tier):
  thorough = tier != 'quick'
  rnd = [14, 15, 18, 22] + ([26, 34] if thorough else [])
  t = []
  for name, lens in (('vlan', [18, 19, 22]), ('arp', [14, 20, 42, 43]), ('rarp', [42]), ('lldp', [14, 16, 20, 24] + ([30] if thorough else [])), ('eapol', [14, 18, 19, 24]),
                     ('mpls', [14, 18, 22]), ('llc', [14, 17, 18, 22, 24]), ('ipv6', [14, 30, 54, 58])):
    for n in lens: t.append(dict(name=name, n=n))
  for n in [32, 34, 36] + ([38] if thorough else []): t.append(dict(name='lldp4', n=n))
  for a, b in ((5, 5), (17, 5), (5, 17), (6, 17)): t.append(dict(name='lldp_ids_%d_%d' % (a, b), n=14 + 2 + a + 1 + 2 + b + 1 + 4 + 2))
  t.append(dict(name='rip_entry', n=24)); t.append(dict(name='dns_name4', n=14 + 9)); t.append(dict(name='nd_lladdr', n=14 + 10)); t.append(dict(name='tcp_long', n=330)); t.append(dict(name='tcp_mptcp', n=90)); t.append(dict(name='tcp_mptcp40', n=110)); t.append(dict(name='dhcp_long', n=30))
  for n in (1378, 1458, 1514): t.append(dict(name='vlan_stack', n=n))
  for n in (1378, 1514): t.append(dict(name='mpls_stack', n=n))
  for name, lens in (('nest_vxlan', [600, 1514, 9014]), ('nest_icmp', [400, 9014]), ('nest_gre', [400, 9014]), ('nest_greeth', [500, 9014])):
    for n in lens + ([65517] if thorough else []): t.append(dict(name=name, n=n))
  for proto, lens in ((1, [34, 38, 42, 46, 62, 66, 70]), (6, [34, 54, 56] + ([58, 62] if thorough else [])), (17, [34, 42, 46]), (2, [34, 42, 46, 50, 54, 58]),
                      (47, [34, 38, 42, 46]), (99, [34, 38])):
    for n in lens: t.append(dict(name='ip', n=n, proto=proto))
  for ports, lens in (((None, 53), [46, 54] + ([55, 58] if thorough else [])), ((68, 67), [50, 54, 282, 286] + ([288] if thorough else [])), ((None, 520), [46, 50, 66]),
                      ((None, 4789), [42, 50] + ([54, 64] if thorough else [])), ((5353, None), [54] if thorough else [46])):
    for n in lens: t.append(dict(name='ip', n=n, proto=17, ports=ports))
  for proto, lens in ((58, [54, 58, 62, 78]), (17, [54, 62]), (6, [54, 74]), (0, [54, 62, 70]), (43, [58, 62]), (44, [55, 58, 61, 62]), (60, [58, 62])):
    for n in lens: t.append(dict(name='ipv6', n=n, proto=proto))
  if not thorough: t = [c for i, c in enumerate(t) if c['n'] <= 58 or (c['name'] == 'ipv6' and c.get('proto') in (43, 44, 60)) or c.get('ports') == (68, 67) or c.get('proto') == 1 or c['name'] in ('rip_entry', 'dns_name4', 'nd_lladdr', 'tcp_long', 'tcp_mptcp', 'tcp_mptcp40', 'dhcp_long', 'vlan_stack', 'mpls_stack') or c['name'].startswith('nest_')]
  BOUNDS[tier] = dict(random_frame_lengths=rnd, templates=len(t), template_note="dispatch fields fixed, all other bytes (incl. every length/offset field) symbolic, "
                      "frame length = truncation point")
  return [
    Obligation('O1_random', h_random, [dict(n=k) for k in rnd], witnesses=('examined',), max_decisions=30000, conc_cap=300,
               desc='N fully unconstrained bytes: parse, print, dump, pack never raise; prefix/remainder invariants'),
    Obligation('O2_templates', h_template, [c for c in t if c['name'] != 'ipv6'], witnesses=('examined',), max_decisions=30000, conc_cap=300,
               desc='per-protocol templates with symbolic bodies at several truncation lengths'),
    Obligation('O3_ipv6_templates', h_template, [c for c in t if c['name'] == 'ipv6'], witnesses=('examined',), max_decisions=30000, conc_cap=300, width=160,
               desc='IPv6 templates (128-bit address arithmetic needs wider terms)'),
  ]
