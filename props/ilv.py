"""Controlled interleaving of real threads at source-line granularity (used by C07 O4).

Every "thread" of the scenario is a real threading.Thread, but only one of them runs at any time: a thread runs from one
*scheduling point* to the next and then hands control back to the controller (the harness, on the main thread), which picks the
thread to run next.  Scheduling points are the 'line' events of sys.settrace in the traced POX files (i.e. before every source
line of pox/lib/recoco/recoco.py executes) plus every blocking primitive.  Which thread runs next is a *solver variable*
(ctx.bool selectors): the engine's path exploration therefore enumerates every interleaving with at most `bound` preemptions
(switching away from a thread that could have continued), and a counterexample is a schedule that replays deterministically.

Blocking primitives are models with their documented semantics (Lock, Event, select on in-memory pingers): a thread that would
block is descheduled until its condition holds.  A timed wait only times out when no thread can run at all ("relying on the
polling timeout"), which the harness is told about.
"""
import sys, threading, os

_RealThread = threading.Thread
_RealSem = threading.Semaphore
_real_current = threading.current_thread


class Kill(BaseException):
  pass


class CThread:
  """stands in for threading.Thread: a real thread that the controller runs one step at a time"""
  def __init__(self, group=None, target=None, name=None, args=(), kwargs=None, daemon=None, ctl=None):
    self.ctl = ctl or Controller.cur
    self.target = target; self.args = args; self.kwargs = kwargs or {}
    self.name = name or 'T%d' % (len(self.ctl.threads) + 1)
    self.daemon = True
    self.go = _RealSem(0)
    self.started = False; self.done = False; self.exc = None
    self.blocked = None            # (cond, timeout, what) while descheduled in a blocking primitive
    self.timed_out = False
    self.where = None
    self.steps = 0
    self.prio = 1
    self.last_stmt = {}
    self.real = _RealThread(target=self._body, daemon=True)
    self.ident = None

  def start(self):
    if self.started: raise RuntimeError("threads can only be started once")
    self.started = True
    self.ctl.threads.append(self)
    self.real.start()

  def is_alive(self): return self.started and not self.done
  isAlive = is_alive
  def join(self, timeout=None): pass

  def _body(self):
    ctl = self.ctl
    self.go.acquire()
    ctl.by_ident[threading.get_ident()] = self
    try:
      if not ctl.draining or self.run_when_draining:
        sys.settrace(self._trace)
        try:
          self.target(*self.args, **self.kwargs)
        finally:
          sys.settrace(None)
    except Kill:
      pass
    except BaseException as e:       # noqa - recorded, reported by the harness
      self.exc = e
    finally:
      self.done = True
      ctl.back.release()
  run_when_draining = False

  def _trace(self, frame, event, arg):
    if event == 'call' and frame.f_code.co_filename in self.ctl.files and frame.f_code.co_name != '<lambda>':
      return self._ltrace     # (lambdas: the rewriting loader wraps lazily evaluated operands into thunks)
    return None

  def _ltrace(self, frame, event, arg):
    if event == 'line':
      # one scheduling point per executed *statement*: the line events of a multi-line statement differ between the rewritten
      # and the plain compilation of the same source, its statements do not
      st = self.ctl.stmt_of(frame.f_code.co_filename, frame.f_lineno)
      k = id(frame)
      if self.last_stmt.get(k) != st:
        self.last_stmt[k] = st
        self.ctl.point(self, frame, st)
    elif event == 'return':
      self.last_stmt.pop(id(frame), None)
    return self._ltrace

  def can_run(self):
    b = self.blocked
    return b is None or bool(b[0]())

  def __repr__(self): return "<CThread %s>" % self.name


class Controller:
  cur = None

  def __init__(self, ctx, files, bound, max_steps=4000, line_filter=None):
    self.ctx = ctx
    self.files = set(os.path.realpath(f) for f in files) | set(files)
    self.bound = bound
    self.threads = []
    self.by_ident = {}
    self.back = _RealSem(0)
    self.draining = False
    self.preemptions = 0
    self.step = 0
    self.max_steps = max_steps
    self.line_filter = line_filter
    self.current = None
    self.trace = []               # (thread name, function, line) of every executed step: the schedule, for reports
    self.problems = []
    self.nchoice = 0
    self._stmts = {}; self._src = {}
    Controller.cur = self

  # ---- called on controlled threads
  def me(self):
    return self.by_ident.get(threading.get_ident())

  def stmt_of(self, filename, lineno):
    m = self._stmts.get(filename)
    if m is None:
      import ast
      m = {}
      src = open(filename).read()
      def walk(body):
        for node in body:
          subs = [getattr(node, f) for f in ('body', 'orelse', 'finalbody') if isinstance(getattr(node, f, None), list)]
          for h in getattr(node, 'handlers', []) or []: subs.append(h.body)
          for c in getattr(node, 'cases', []) or []: subs.append(c.body)
          subs = [b for b in subs if b and hasattr(b[0], 'lineno')]
          end = node.end_lineno if not subs else max(node.lineno, min(b[0].lineno for b in subs) - 1)
          for ln in range(node.lineno, end + 1): m[ln] = node.lineno
          for h in getattr(node, 'handlers', []) or []: m[h.lineno] = h.lineno
          for b in subs: walk(b)
      walk(ast.parse(src).body)
      self._stmts[filename] = m
      self._src[filename] = src.split('\n')
    return m.get(lineno, lineno)

  def stmt_text(self, filename, st):
    self.stmt_of(filename, st)
    m = self._stmts[filename]; lines = self._src[filename]
    out = []; ln = st
    while m.get(ln, None) == st and ln <= len(lines):
      out.append(lines[ln - 1]); ln += 1
    return '\n'.join(out) or (lines[st - 1] if st <= len(lines) else '')

  def point(self, th, frame, st):
    if self.draining:
      th.steps += 1
      if th.steps > 200000: raise Kill()
      return
    if self.line_filter is not None and not self.line_filter(frame, st): return
    th.where = (frame.f_code.co_name, st)
    self.back.release()
    th.go.acquire()

  def mark(self, label):
    """explicit scheduling point in harness code running on a controlled thread"""
    th = self.me()
    if th is None or self.draining: return
    th.where = ('harness', label)
    self.back.release()
    th.go.acquire()

  def block(self, cond, timeout=None, what=''):
    """deschedule the calling thread until cond() holds; False if the wait timed out (or the run is being wound up)"""
    th = self.me()
    if th is None:
      if cond(): return True
      raise RuntimeError("blocking %s on the controller's own thread" % what)
    while not cond():
      if self.draining: return False
      th.blocked = (cond, timeout, what); th.timed_out = False
      self.back.release()
      th.go.acquire()
      th.blocked = None
      if th.timed_out:
        th.timed_out = False
        return False
    return True

  # ---- called by the harness (main thread)
  def spawn(self, name, fn, *args):
    t = CThread(target=fn, name=name, args=args, ctl=self)
    t.start()
    return t

  def _choose(self, lst, costly=False):
    """first element by default; every alternative is a solver-chosen branch (which consumes preemption budget if costly)"""
    if len(lst) == 1 or (costly and self.preemptions >= self.bound): return lst[0]
    for t in lst[1:]:
      self.nchoice += 1
      if bool(self.ctx.bool('pick%d_%s' % (self.nchoice, t.name))):
        if costly: self.preemptions += 1
        return t
    return lst[0]

  def _run_one(self, t):
    self.current = t
    t.steps += 1
    t.go.release()
    self.back.acquire()
    self.trace.append((t.name,) + tuple(t.where or ('?', 0)))

  def run(self, on_step=None, on_stuck=None):
    """runs the threads to completion/quiescence.  on_step() after every step (invariants).  on_stuck(timed) is called when no
    thread can run: returns 'quit' (wind up), or 'timeout' (let the first timed wait expire), or 'deadlock'."""
    ctx = self.ctx
    cur = None
    while True:
      live = [t for t in self.threads if t.started and not t.done]
      if not live: return 'finished'
      if self.step >= self.max_steps:
        self.problems.append('no quiescence within %d steps' % self.max_steps)
        return 'budget'
      enabled = [t for t in live if t.can_run()]
      if not enabled:
        timed = [t for t in live if t.blocked is not None and t.blocked[1] is not None]
        verdict = on_stuck(timed) if on_stuck is not None else ('timeout' if timed else 'deadlock')
        if verdict == 'quit': return 'quiescent'
        if verdict == 'continue': continue
        if verdict == 'timeout' and timed:
          t = timed[0]
          t.timed_out = True
          cond = t.blocked[0]
          t.blocked = (lambda: True, t.blocked[1], t.blocked[2])
          continue
        self.problems.append('deadlock: ' + ', '.join('%s in %s' % (t.name, t.blocked[2] if t.blocked else '?') for t in live))
        return 'deadlock'
      # A *timed* Lock.acquire may give up at any moment: how long the other threads' steps take is arbitrary (a task slice may last longer than
      # any fixed timeout), so its expiry is a scheduling choice of its own - explored like a preemption and charged to the same budget.
      # (Timed waits of the idle loops - select, Event.wait - are different: an early expiry there is a spurious wake-up that only re-polls.)
      expirable = [t for t in live if t.blocked is not None and t.blocked[1] is not None and t.blocked[2].endswith('Lock.acquire') and not t.can_run()]
      if expirable and self.preemptions < self.bound:
        for t in expirable:
          self.nchoice += 1
          if bool(ctx.bool('expire%d_%s' % (self.nchoice, t.name))):
            self.preemptions += 1
            t.timed_out = True
            t.blocked = (lambda: True, t.blocked[1], t.blocked[2])
            enabled = [x for x in live if x.can_run()]
            break
      if cur is not None and cur in enabled:
        nxt = cur
        others = [t for t in enabled if t is not cur]
        if others and self.preemptions < self.bound:
          if bool(ctx.bool('pre%d' % self.step)):
            self.preemptions += 1
            nxt = self._choose(others)
      else:
        # the running thread blocked or ended: by default the first runnable thread in priority order continues; choosing another one
        # is explored as well but is charged to the preemption budget (keeps the schedule tree polynomial)
        nxt = self._choose(sorted(enabled, key=lambda t: (t.prio, self.threads.index(t))), costly=True)
      self.step += 1
      cur = nxt
      self._run_one(cur)
      if on_step is not None: on_step()

  def drain(self):
    """wind up: no more scheduling points, primitives never block; every thread runs to its end"""
    self.draining = True
    for t in self.threads:
      if t.started: t.go.release()
    for t in self.threads:
      if t.started:
        t.real.join(10)
    stuck = [t.name for t in self.threads if t.started and t.real.is_alive()]
    if stuck:
      import ctypes
      for t in self.threads:
        if t.started and t.real.is_alive():
          ctypes.pythonapi.PyThreadState_SetAsyncExc(ctypes.c_ulong(t.real.ident), ctypes.py_object(Kill))
      for t in self.threads:
        if t.started: t.real.join(5)
    Controller.cur = None
    return stuck


# ---- models of the blocking primitives ---------------------------------------------------------------------------
class MLock:
  def __init__(self, ctl=None): self.ctl = ctl or Controller.cur; self.held = False
  def acquire(self, blocking=True, timeout=-1):
    if not blocking:
      if self.held: return False
      self.held = True; return True
    ok = self.ctl.block(lambda: not self.held, None if timeout is None or timeout < 0 else timeout, 'Lock.acquire')
    if ok or self.ctl.draining:
      self.held = True
      return True
    return False
  def release(self):
    if not self.held and not self.ctl.draining: raise RuntimeError("release unlocked lock")
    self.held = False
  def locked(self): return self.held
  def __enter__(self): self.acquire(); return True
  def __exit__(self, *a): self.release()


class MRLock:
  """threading.RLock: re-entrant for its owner thread"""
  def __init__(self, ctl=None): self.ctl = ctl or Controller.cur; self.owner = None; self.count = 0
  def _me(self): return self.ctl.me() or 'main'
  def acquire(self, blocking=True, timeout=-1):
    me = self._me()
    if self.owner is me:
      self.count += 1; return True
    if not blocking:
      if self.owner is not None: return False
    else:
      ok = self.ctl.block(lambda: self.owner is None, None if timeout is None or timeout < 0 else timeout, 'RLock.acquire')
      if not ok and not self.ctl.draining: return False
    self.owner = me; self.count = 1
    return True
  def release(self):
    if self.owner is not self._me() and not self.ctl.draining: raise RuntimeError("cannot release un-acquired lock")
    self.count -= 1
    if self.count <= 0: self.owner = None; self.count = 0
  def __enter__(self): self.acquire(); return True
  def __exit__(self, *a): self.release()


class MEvent:
  def __init__(self, ctl=None): self.ctl = ctl or Controller.cur; self.flag = False; self.sets = 0
  def set(self): self.flag = True; self.sets += 1
  def clear(self): self.flag = False
  def is_set(self): return self.flag
  isSet = is_set
  def wait(self, timeout=None):
    if self.flag: return True
    self.ctl.block(lambda: self.flag, timeout, 'Event.wait')
    return self.flag


class MPinger:
  """pox.lib.util pinger as an in-memory flag (ping = a byte in the pipe)"""
  n = 0
  def __init__(self): self.flag = False; MPinger.n += 1; self.id = MPinger.n
  def ping(self): self.flag = True
  def pongAll(self): self.flag = False
  def pong(self): self.flag = False
  def fileno(self): return 900 + self.id
  def __repr__(self): return "<pinger %d>" % self.id


class MSelect:
  """select.select over pingers only: returns at once with the pinged ones, else blocks until one is pinged or the timeout"""
  def __init__(self, ctl, clock): self.ctl = ctl; self.clock = clock; self.timeouts = 0
  def select(self, r, w, x, timeout=None):
    r = list(r)
    pingers = [f for f in r if isinstance(f, MPinger)]
    flagged = [p for p in pingers if p.flag]
    if flagged: return flagged, [], []
    ok = self.ctl.block(lambda: any(p.flag for p in pingers), timeout, 'select')
    if not ok:
      if timeout is not None and not self.ctl.draining:
        self.clock.now = self.clock.now + timeout
        self.timeouts += 1
      return [], [], []
    return [p for p in pingers if p.flag], [], []
  def __getattr__(self, n):
    import select as _s
    return getattr(_s, n)


class ThreadingModule:
  """what recoco sees as `threading`: model Lock/Event, controlled threads, the real rest"""
  def __init__(self, ctl): self.ctl = ctl
  def Lock(self): return MLock(self.ctl)
  def RLock(self): return MRLock(self.ctl)
  def Event(self): return MEvent(self.ctl)
  def Thread(self, *a, **k): return CThread(*a, ctl=self.ctl, **k)
  def current_thread(self):
    t = self.ctl.me()
    return t if t is not None else _real_current()
  currentThread = current_thread
  def __getattr__(self, n): return getattr(threading, n)
