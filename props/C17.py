"""C17 - the controller's picture of switch ports and multipart statistics is exact."""
from symx.run import Obligation
from props import env

CLAIM = {
 'technique': "bounded symbolic execution of the real port-view and stats-reassembly code with z3 (symx, QF_BV): symbolic port numbers/addresses/xids with aliasing forks",
 'text': "A features reply with up to 2 ports followed by up to 2 port-status notifications (ADD/MODIFY/DELETE by symbolic reason, symbolic 16-bit port "
         "numbers and MACs, so every aliasing pattern incl. re-adding and renaming is a solver-decided branch) is decoded by the real Connection.read and "
         "default handlers; z3 proves len/keys/iteration/membership/values/items/lookup by number, name and hardware address equal a reference map and "
         "that the original port list is unchanged. Statistics replies for two requests (symbolic xids, may alias), split into 1..3 parts and "
         "interleaved with barrier/echo messages, must raise each aggregated event exactly once, after the final part, with exactly that request's "
         "entries in order."
         " Also: a further features reply on the live connection, raw statistics events halted by a nexus listener, notifications coalesced with the barrier reply, and an early notification that restores the features-reply description. A solver-chosen look at the port view during every history; 4- and 6-part replies; O5_stats_two_connections: two connections reassembling at the same time.",
 'note': "Trusted: CPython, z3, symx proxies/shims incl. the equality-forking SymSet/SymDict containers, the reference map in props/C17.py. Port names are "
         "concrete distinct strings per port slot; hardware addresses are assumed pairwise distinct (lookup by MAC is otherwise ambiguous).",
}
EXPLANATION = ("Real PortCollection.*, DefaultOpenFlowHandlers.handle_FEATURES_REPLY/handle_PORT_STATUS/handle_STATS_REPLY, "
               "Connection._incoming_stats_reply and handle_OFPST_* executed on messages decoded from bytes with symbolic fields; reference map / "
               "reference reassembly compared by z3 per path.")
FUNCTIONS = ["pox.openflow.of_01.PortCollection.*", "DefaultOpenFlowHandlers.handle_FEATURES_REPLY/handle_PORT_STATUS/handle_STATS_REPLY",
             "Connection.read/_incoming_stats_reply", "handle_OFPST_DESC/FLOW/AGGREGATE/TABLE/PORT/QUEUE"]
BOUNDS = {}
OUTSIDE = ["more than 2 initial ports / 2 (thorough 3) notifications", "more than 3 parts per reply, more than 2 requests", "symbolic port names",
           "parts of two different requests interleaved with each other (the code documents that it does not support this; see known findings)"]
ASSUMPTIONS = ["the OpenFlow nexus is a stub that records events; handshake already finished (default handlers installed)"]

NAMES = ['eth-a', 'eth-b', 'eth-c', 'eth-d', 'eth-e', 'eth-f', 'eth-g']


class Nexus:
  halt_raw = None          # when set: a callable deciding whether a nexus-level listener halts this raw per-part statistics event
  def __init__(self): self.events = []
  def raiseEventNoErrors(self, ev, *a, **kw):
    self.events.append((ev, a))
    if self.halt_raw is not None and getattr(ev, '__name__', '') == 'RawStatsReply' and self.halt_raw():
      class Halted: halt = True
      return Halted()
    return None
  def raiseEvent(self, ev, *a, **kw): self.events.append((ev, a)); return None
  def _connect(self, con): pass
  def _disconnect(self, dpid): pass


class Dummy:
  sending = False
  def send(self, con, data): pass


def mkcon(ctx):
  env.get_core()
  of01 = ctx.pox('pox.openflow.of_01'); of = ctx.pox('pox.openflow.libopenflow_01')
  of01.deferredSender = Dummy()
  sock = env.FakeSocket(eof=False)
  con = of01.Connection(sock)
  con.ofnexus = Nexus()
  con.handlers = of01._default_handlers.handlers
  return of01, of, sock, con


def h_ports(ctx, ninit, nnotes, refresh=None):
  of01, of, sock, con = mkcon(ctx)
  addrs = ctx.pox('pox.lib.addresses')
  from symx.core import SymBytes
  macs = []
  def mkport(tag, name):
    no = ctx.int('no_' + tag, 0, 0xffff)
    mac = ctx.bytes('mac_' + tag, 6)
    for m in macs: ctx.assume(ctx.Not(ctx.Eq(m, mac)))
    macs.append(mac)
    return of.ofp_phy_port(port_no=no, hw_addr=addrs.EthAddr(mac), name=name), (no, mac, name)
  ref = []              # reference view: list of (no, mac, name), unique port numbers
  orig = []
  fr = of.ofp_features_reply(datapath_id=5)
  for i in range(ninit):
    p, d = mkport('i%d' % i, NAMES[i])
    for (n2, _, _) in orig: ctx.assume(n2 != d[0])      # a switch reports each port number once
    fr.ports.append(p); orig.append(d)
  ref = list(orig)
  # an application may look at the view at any moment (len / iteration / keys / values / items of the live and of the original collection):
  # looking must not change what the view shows later.  One solver-chosen moment of the history gets such a look.
  npos = 1 + nnotes + (2 if refresh is not None else 0)
  peekat = int(ctx.int('peekat', 0, npos + 1))          # npos + 1: never
  pos = [0]
  def moment():
    if pos[0] == peekat:
      ctx.witness('peeked')
      for coll in (con.ports, con.original_ports):
        len(coll); list(coll.keys()); list(iter(coll))
        try: coll.values(); coll.items()
        except Exception as e: ctx.check('looking at the view raises nothing (%s)' % type(e).__name__, False)
    pos[0] += 1
  moment()
  sock.feed(fr.pack()); ctx.check('read', con.read() is True)
  for j in range(nnotes):
    moment()
    reason = ctx.int('reason%d' % j, 0, 2)
    p, d = mkport('n%d' % j, NAMES[ninit + j])
    ps = of.ofp_port_status(reason=reason, desc=p)
    sock.feed(ps.pack()); ctx.check('read', con.read() is True)
    hit = [k for k, r in enumerate(ref) if bool(r[0] == d[0])]
    if bool(reason == 1):          # DELETE
      ref = [r for k, r in enumerate(ref) if k not in hit]
      ctx.witness('delete-hit' if hit else 'delete-miss')
    else:                          # ADD / MODIFY: the notified description replaces whatever was known for that number
      if hit: ref[hit[0]] = d; ctx.witness('replace')
      else: ref.append(d); ctx.witness('add')
  if refresh is not None:
    # a further features reply on the live connection (an application asked for the features again): the port view starts over from the
    # ports it reports - whatever notifications were applied before -, and later notifications apply to that
    fr2 = of.ofp_features_reply(datapath_id=5)
    if refresh == 'same': fr2.ports = list(fr.ports)
    else:
      p, d = mkport('r0', NAMES[ninit + nnotes])
      fr2.ports = list(fr.ports[1:]) + [p]
      for (n2, _, _) in orig[1:]: ctx.assume(n2 != d[0])
      orig = orig[1:] + [d]
    moment()
    sock.feed(fr2.pack()); ctx.check('read', con.read() is True)
    ref = list(orig)
    moment()
    reason = ctx.int('reason_late', 0, 2)
    p, d = mkport('late', NAMES[ninit + nnotes + 1])
    sock.feed(of.ofp_port_status(reason=reason, desc=p).pack()); ctx.check('read', con.read() is True)
    hit = [k for k, r in enumerate(ref) if bool(r[0] == d[0])]
    if bool(reason == 1): ref = [r for k, r in enumerate(ref) if k not in hit]
    elif hit: ref[hit[0]] = d
    else: ref.append(d)
    ctx.witness('refreshed')
  ports = con.ports
  ctx.check('len', len(ports) == len(ref))
  keys = list(ports.keys())
  ctx.check('keys', len(keys) == len(ref) and all(any(bool(k == r[0]) for k in keys) for r in ref))
  ctx.check('iteration == keys', len(list(iter(ports))) == len(ref))
  vals = ports.values(); items = ports.items()
  ctx.check('values/items sizes', len(vals) == len(ref) and len(items) == len(ref))
  for (no, mac, name) in ref:
    ctx.check('contains number', no in ports)
    p = ports[no]
    ctx.check('lookup by number', ctx.And(p.port_no == no, ctx.Eq(p.hw_addr.raw, mac), p.name == name))
    q = ports[name]
    ctx.check('lookup by name', q.port_no == no)
    h = ports[addrs.EthAddr(mac)]
    ctx.check('lookup by hardware address', h.port_no == no)
    ctx.check('get()', ports.get(no) is p)
  # names / addresses that are no longer part of the view must not resolve
  live_names = [r[2] for r in ref]
  for nm in NAMES[:ninit + nnotes + (2 if refresh is not None else 0)]:
    if nm not in live_names:
      ctx.check('stale name does not resolve', nm not in ports)
  probe = ctx.int('probe', 0, 0xffff)
  ctx.check('membership of an arbitrary number', ctx.Iff(probe in ports, ctx.Or(*[(probe == r[0]) for r in ref]) if ref else False))
  # originally reported ports remain available unchanged
  op = con.original_ports
  ctx.check('original len', len(op) == len(orig))
  for (no, mac, name) in orig:
    p = op[no]
    ctx.check('original port unchanged', ctx.And(p.port_no == no, ctx.Eq(p.hw_addr.raw, mac), p.name == name))
  ctx.witness('done')


STAT_KINDS = {'flow': 1, 'table': 3, 'port': 4, 'queue': 5, 'desc': 0, 'aggregate': 2}


def h_ports_handshake(ctx, nearly, nlate, coalesce=False, restore=False):
  """port-status notifications that arrive inside the handshake window (after the features reply, before the barrier reply) are replayed when
  the connection comes up: the port view and the PortStatus events must reflect them in arrival order, followed by the later ones"""
  from props import C09
  core, of01, of, nexus, log = C09.setup(ctx)
  addrs = ctx.pox('pox.lib.addresses')
  sock = env.FakeSocket(eof=False)
  con = of01.Connection(sock)
  C09.feed(con, sock, of.ofp_hello())
  fr = of.ofp_features_reply(datapath_id=9)
  p0 = ctx.int('no_init', 0, 0xffff)
  fr.ports.append(of.ofp_phy_port(port_no=p0, name=NAMES[0], hw_addr=addrs.EthAddr(b'\x02\x00\x00\x00\x00\x01')))
  C09.feed(con, sock, fr)
  ref = [(p0, NAMES[0])]
  notes = []
  def note(j):
    reason = ctx.int('reason%d' % j, 0, 2); no = ctx.int('no_n%d' % j, 0, 0xffff); name = NAMES[1 + j]
    if restore and j == nearly - 1:
      # the last early notification gives the initially reported port back exactly the description it had in the features reply (a link
      # that flapped, a port removed and re-added while the handshake was in progress)
      ps = of.ofp_port_status(reason=(0 if bool(reason == 1) else reason), desc=of.ofp_phy_port(port_no=p0, name=NAMES[0], hw_addr=addrs.EthAddr(b'\x02\x00\x00\x00\x00\x01')))
      C09.feed(con, sock, ps); notes.append(p0)
      hit = [k for k, r in enumerate(ref) if bool(r[0] == p0)]
      if hit: ref[hit[0]] = (p0, NAMES[0])
      else: ref.append((p0, NAMES[0]))
      return
    ps = of.ofp_port_status(reason=reason, desc=of.ofp_phy_port(port_no=no, name=name, hw_addr=addrs.EthAddr(bytes([2, 0, 0, 0, 1, j]))))
    C09.feed(con, sock, ps)
    notes.append(no)
    hit = [k for k, r in enumerate(ref) if bool(r[0] == no)]
    if bool(reason == 1):
      for k in reversed(hit): del ref[k]
    elif hit: ref[hit[0]] = (no, name)
    else: ref.append((no, name))
  for j in range(nearly): note(j)
  ctx.check('nothing announced before the barrier reply', not any(x[0] in ('up', 'port') for x in log))
  bx = C09.barrier_xid(of, of01, sock)
  C09.HELD[0] = None
  C09.HOLD[0] = bool(coalesce and nlate)           # coalesce: the barrier reply and the notifications behind it arrive in one recv() chunk
  C09.feed(con, sock, of.ofp_barrier_reply(xid=bx))
  if not C09.HOLD[0]: ctx.check('connection came up', any(x[0] == 'up' for x in log))
  for j in range(nearly, nearly + nlate):
    if j == nearly + nlate - 1: C09.HOLD[0] = False
    note(j)
  ctx.check('connection came up', any(x[0] == 'up' for x in log))
  got = [x[2] for x in log if x[0] == 'port']
  ctx.check('PortStatus events: one per notification, in arrival order', len(got) == len(notes) and all(bool(a == b) for a, b in zip(got, notes)))
  ports = con.ports
  ctx.check('port view size', len(ports) == len(ref))
  for no, name in ref:
    ctx.check('port view: number present with the latest description', (no in ports) and ports[no].name == name)
  ctx.witness('done')


def h_stats(ctx, kinds, parts, order, ctag=''):
  """kinds: (k1, k2) stats types of the two requests; parts: (n1, n2) number of parts; order: interleaving string over
  '1','2' (next part of request 1/2), 'b' (barrier reply), 'e' (echo request)"""
  of01, of, sock, con = mkcon(ctx)
  ev = ctx.pox('pox.openflow')
  if ctag:
    real = ctx
    class _T:
      def check(s, name, cond): real.check(ctag + name, cond)
      def __getattr__(s, n): return getattr(real, n)
    ctx = _T()
  # an application listening on the nexus may halt the *raw* per-part event (RawStatsReply) of any part (solver-chosen per part): that only
  # stops the raw event from being raised again on the connection - the aggregated events still see every part
  nraw = [0]
  def halt_raw():
    nraw[0] += 1
    return bool(ctx.bool('halt_raw%d' % nraw[0])) if nraw[0] <= 3 else False
  con.ofnexus.halt_raw = halt_raw
  got = []
  for name in ('FlowStatsReceived', 'TableStatsReceived', 'PortStatsReceived', 'QueueStatsReceived', 'SwitchDescReceived', 'AggregateFlowStatsReceived'):
    con.addListenerByName(name, lambda e, name=name: got.append((name, e)))
  xids = [ctx.int('xid1', 0, 0xffffffff), ctx.int('xid2', 0, 0xffffffff)]
  # two interleaved requests of the same type are only distinguishable by their transaction ids
  if ctag and kinds[0] == kinds[1]: ctx.assume(xids[0] != xids[1])
  tagc = [0]
  def body(kind):
    tagc[0] += 1; t = tagc[0]
    if kind == 'flow': return [of.ofp_flow_stats(cookie=t, priority=ctx.int('v%d' % t, 0, 0xffff))], t
    if kind == 'table': return [of.ofp_table_stats(table_id=t, max_entries=ctx.int('v%d' % t, 0, 0xffff))], t
    if kind == 'port': return [of.ofp_port_stats(port_no=t, rx_packets=ctx.int('v%d' % t, 0, 0xffff))], t
    if kind == 'queue': return [of.ofp_queue_stats(port_no=t, queue_id=ctx.int('v%d' % t, 0, 0xffff))], t
    if kind == 'desc': return of.ofp_desc_stats(mfr_desc='m%d' % t), t
    return of.ofp_aggregate_stats(flow_count=t), t
  sent = {0: [], 1: []}; nxt = [0, 0]
  finals = {}
  for step, ch in enumerate(order):
    if ch in '12':
      r = int(ch) - 1
      kind = kinds[r]; i = nxt[r]; nxt[r] += 1
      last = (i == parts[r] - 1)
      b, tag = body(kind)
      m = of.ofp_stats_reply(xid=xids[r], type=STAT_KINDS[kind], body=b)
      m.flags = 0 if last else 1
      sent[r].append(tag)
      sock.feed(m.pack())
      before = len(got)
      ctx.check('read', con.read() is True)
      if last:
        ctx.check('aggregated event fires when the final part arrives', len(got) == before + 1)
        finals[r] = len(got) - 1
      else:
        ctx.check('no event before the final part', len(got) == before)
    elif ch == 'b':
      sock.feed(of.ofp_barrier_reply(xid=ctx.int('bx%d' % step, 0, 0xffffffff)).pack()); ctx.check('read', con.read() is True)
    else:
      sock.feed(of.ofp_echo_request(xid=ctx.int('ex%d' % step, 0, 0xffffffff)).pack()); ctx.check('read', con.read() is True)
  ctx.check('exactly one event per request', len(got) == 2)
  evname = dict(flow='FlowStatsReceived', table='TableStatsReceived', port='PortStatsReceived', queue='QueueStatsReceived', desc='SwitchDescReceived',
                aggregate='AggregateFlowStatsReceived')
  for r in (0, 1):
    if r not in finals or finals[r] >= len(got): continue
    name, e = got[finals[r]]
    ctx.check('event type', name == evname[kinds[r]])
    if kinds[r] in ('flow', 'table', 'port', 'queue'):
      key = dict(flow='cookie', table='table_id', port='port_no', queue='port_no')[kinds[r]]
      tags = [getattr(x, key, ('foreign', type(x).__name__)) for x in e.stats]
      ctx.check("event carries no entry of another request", all(t in sent[r] for t in tags))
      ctx.check("event carries exactly its own request's entries in order", tags == sent[r])
    elif kinds[r] == 'desc':
      ctx.check('desc body', e.stats.mfr_desc == 'm%d' % sent[r][-1])
    else:
      ctx.check('aggregate body', e.stats.flow_count == sent[r][-1])
  ctx.witness('done')


def h_stats_two_connections(ctx, order):
  """two switches (two Connection objects) answer port-statistics requests in parts at the same time; order: string over 'a' / 'b' = the next part
  arrives on connection A / B.  Each connection reassembles its own reply: one event per connection, after its final part, with exactly its own
  entries in order - whatever the other connection receives in between (xids symbolic: they may coincide)."""
  of01, of, sockA, conA = mkcon(ctx)
  sockB = env.FakeSocket(eof=False); conB = of01.Connection(sockB); conB.ofnexus = Nexus(); conB.handlers = of01._default_handlers.handlers
  cons = {'a': (sockA, conA), 'b': (sockB, conB)}
  got = {'a': [], 'b': []}
  for k in 'ab': cons[k][1].addListenerByName('PortStatsReceived', lambda e, k=k: got[k].append(e))
  total = {k: order.count(k) for k in 'ab'}
  xid = {k: ctx.int('xid_' + k, 0, 0xffffffff) for k in 'ab'}
  seen = {'a': 0, 'b': 0}; sent = {'a': [], 'b': []}
  base = {'a': 100, 'b': 200}
  for ch in order:
    seen[ch] += 1
    no = base[ch] + seen[ch]
    m = of.ofp_stats_reply(xid=xid[ch], type=4, body=[of.ofp_port_stats(port_no=no, rx_packets=ctx.int('rx_%s%d' % (ch, seen[ch]), 0, 0xffff))])
    m.flags = 0 if seen[ch] == total[ch] else 1
    sent[ch].append(no)
    sock, con = cons[ch]
    sock.feed(m.pack()); ctx.check('read', con.read() is True)
    for k in 'ab':
      evs = got[k]
      done = seen[k] == total[k] and total[k] > 0
      ctx.check('connection %s: aggregated event exactly when its own final part has arrived' % k.upper(), len(evs) == (1 if done else 0))
      if done and len(evs) == 1:
        ctx.check('connection %s: the event carries exactly its own entries in order' % k.upper(), [p.port_no for p in evs[0].stats] == sent[k])
  ctx.witness('done')


def obligations(tier):
  thorough = tier != 'quick'
  pc = [dict(ninit=a, nnotes=b) for a in (0, 1, 2) for b in ((0, 1, 2, 3) if not thorough else (0, 1, 2, 3, 4)) if a + b <= len(NAMES) and (thorough or a + b <= 4)]
  st = []
  multi = ['flow', 'table', 'port', 'queue']
  orders = {(1, 1): ['12', '1b2', 'e12'], (2, 1): ['112', '1b12', '1e1b2'], (2, 2): ['1122', '11b22', '1e12e2'.replace('e12e2', 'e122')],
            (3, 1): ['1112', '11b12'], (3, 2): ['11122', '1b11e22'], (1, 3): ['1222', '12b22'], (3, 3): ['111222'],
            (4, 2): ['111122'], (6, 1): ['1111112', '111b111e2'], (5, 6): ['11111222222']}
  for i, k1 in enumerate(multi):
    k2 = multi[(i + 1) % 4]
    for (n1, n2), os_ in orders.items():
      if not thorough and (n1, n2) in ((3, 3), (1, 3), (4, 2), (6, 1)) and i: continue
      if (n1, n2) == (5, 6) and (i or not thorough): continue
      for o in os_:
        st.append(dict(kinds=(k1, k2), parts=(n1, n2), order=o))
    st.append(dict(kinds=(k1, k1), parts=(2, 2), order='1b122'))         # same type, xids may alias
  for k in ('desc', 'aggregate'):
    st.append(dict(kinds=(k, 'flow'), parts=(1, 2), order='1b2e2'))
    st.append(dict(kinds=('port', k), parts=(3, 1), order='11e12'))
  BOUNDS[tier] = dict(ports="0..2 initial ports, 0..%d notifications, 16-bit port numbers and 48-bit MACs symbolic (all aliasing patterns), reason symbolic" % (4 if thorough else 3),
                      stats="two requests (contiguous part sequences), 1..3 parts each (flow/table also 4 and 6 parts; thorough 5 + 6), all 4 multipart types + desc/aggregate, barrier/echo interleaved, xids symbolic")
  pc = pc + [dict(ninit=2, nnotes=1, refresh='same'), dict(ninit=1, nnotes=1, refresh='other')] + ([dict(ninit=2, nnotes=2, refresh='same'), dict(ninit=2, nnotes=1, refresh='other')] if thorough else [])
  return [
    Obligation('O1_ports', h_ports, pc, witnesses=('done', 'add', 'replace', 'delete-hit', 'delete-miss', 'refreshed', 'peeked'), max_decisions=20000,
               desc='PortCollection view == reference map after features reply + port-status notifications'),
    Obligation('O4_ports_handshake', h_ports_handshake, [dict(nearly=a, nlate=b) for a, b in ((1, 0), (2, 0), (2, 1), (3, 0) if thorough else (1, 1))] + [dict(nearly=1, nlate=2, coalesce=True), dict(nearly=0, nlate=1, coalesce=True), dict(nearly=2, nlate=0, restore=True), dict(nearly=2, nlate=1, restore=True)], witnesses=('done',),
               max_decisions=20000, desc='port-status notifications inside the handshake window are applied (and announced) in arrival order'),
    Obligation('O2_stats', h_stats, st, witnesses=('done',), max_decisions=20000,
               desc='multipart stats reassembly: one event per request, after the final part, own entries in order'),
    Obligation('O5_stats_two_connections', h_stats_two_connections, [dict(order=o) for o in ('abab', 'aabb', 'abba', 'aab', 'abaab')], witnesses=('done',), max_decisions=20000,
               desc='two connections receiving multipart statistics replies at the same time: each reassembles its own'),
    Obligation('O3_stats_interleaved', h_stats, [dict(kinds=('flow', 'port'), parts=(2, 1), order='121', ctag='[interleaved] '),
                                                 dict(kinds=('flow', 'flow'), parts=(2, 2), order='1212', ctag='[interleaved] '),
                                                 dict(kinds=('port', 'table'), parts=(3, 2), order='12121', ctag='[interleaved] ')],
               max_decisions=20000, desc="parts of two requests interleaved with each other: never merged, each event complete"),
  ]
