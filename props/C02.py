"""C02 - message framing is independent of how the byte stream is segmented."""
from symx.run import Obligation
from props import env

CLAIM = {
 'technique': "bounded symbolic execution of the real read paths with z3 (symx, QF_BV): symbolic message contents and symbolic cut positions",
 'text': "A stream of up to 3 well-formed messages (types drawn from the set each side receives; xids and opaque bodies fully symbolic) is fed to "
         "the real controller Connection.read and to the real switch IOWorker/OFConnection.read in chunks whose cut positions are symbolic integers "
         "(every 1-cut and 2-cut position is covered by solver-driven forking, plus the 1-byte dribble and the controller's 2048-byte recv boundary); "
         "on every path z3 proves that exactly the message sequence is delivered, in order, once each, byte-identical, with nothing delivered early "
         "and an empty residual buffer at the end."
         " Also: the controller side with its real handler tables across the end of the handshake (O5), a stream with an unsupported type and a failing handler on the switch side (O6), single reads completing 150-900 small messages (O7), and the switch side fed through the real IOWorker._do_recv with totals that are multiples of its 8192-byte read size. O3_big_last: a message longer than one recv() as the last message of a burst behind small ones.",
 'note': "Trusted: CPython, z3, symx proxies/shims, scripted sockets (props/env.py); controller-side handlers are recorders. Cut positions are "
         "concretised by forking (one path per position), contents stay symbolic. Bounded by stream length and number of cuts.",
}
EXPLANATION = ("Real Connection.read and IOWorker._push_receive_data/OFConnection.read executed on symbolic message streams cut at symbolic positions; "
               "delivered sequence == sent sequence and residual-buffer assertions decided by z3 on every path.")
FUNCTIONS = ["pox.openflow.of_01.Connection.read", "pox.datapaths.switch.OFConnection.read",
             "pox.lib.ioworker.IOWorker._push_receive_data/peek/consume_receive_buf", "libopenflow_01 unpack_new of the message types used"]
BOUNDS = {}
OUTSIDE = ["more than 3 messages per stream", "more than 2 symbolic cuts (3 in thorough) besides the dribble", "streams longer than ~60 bytes (except the 2048 case)"]
ASSUMPTIONS = ["recv/select scripted; deferred sender idle; controller handlers replaced by recorders",
               "structured bodies (features_reply, flow_mod, port_mod, packet_out) are concrete encodings with symbolic xid; opaque bodies are symbolic"]


def be(v, n):
  return [(v >> (8 * (n - 1 - i))) & 0xff for i in range(n)]


def hdr(t, length, xid):
  return [1, t] + be(length, 2) + be(xid, 4)


def make_stream(ctx, of, kinds):
  """-> (list of per-message byte lists, list of type values)"""
  msgs = []; types = []
  for i, k in enumerate(kinds):
    xid = ctx.int('xid%d' % i, 0, 0xffffffff)
    if k == 'hello': b = hdr(0, 8, xid); t = 0
    elif k.startswith('echo'):
      n = int(k[4:]); body = ctx.bytes('body%d' % i, n); b = hdr(2, 8 + n, xid) + list(body); t = 2
    elif k.startswith('reply'):
      n = int(k[5:]); body = ctx.bytes('body%d' % i, n); b = hdr(3, 8 + n, xid) + list(body); t = 3
    elif k.startswith('error'):
      n = int(k[5:]); body = ctx.bytes('body%d' % i, 4 + n); b = hdr(1, 12 + n, xid) + list(body); t = 1
    elif k == 'barrier_req': b = hdr(18, 8, xid); t = 18
    elif k == 'barrier_rep': b = hdr(19, 8, xid); t = 19
    elif k == 'features_req': b = hdr(5, 8, xid); t = 5
    elif k == 'set_config': body = ctx.bytes('body%d' % i, 4); b = hdr(9, 12, xid) + list(body); t = 9
    elif k == 'get_config_reply': body = ctx.bytes('body%d' % i, 4); b = hdr(8, 12, xid) + list(body); t = 8
    elif k.startswith('packet_in'):
      n = int(k[9:]); body = ctx.bytes('body%d' % i, n)
      bid = ctx.int('bid%d' % i, 0, 0xffffffff)
      b = hdr(10, 18 + n, xid) + be(bid, 4) + be(n, 2) + be(1, 2) + [0, 0] + list(body); t = 10
    elif k == 'port_mod':
      raw = list(of.ofp_port_mod(port_no=3, config=1, mask=1).pack()); b = hdr(15, 32, xid) + raw[8:]; t = 15
    elif k == 'flow_mod':
      fm = of.ofp_flow_mod(); fm.match.in_port = 5; fm.actions.append(of.ofp_action_output(port=2))
      raw = list(fm.pack()); b = hdr(14, len(raw), xid) + raw[8:]; t = 14
    elif k.startswith('packet_out'):
      n = int(k[10:]); body = ctx.bytes('body%d' % i, n)
      po = of.ofp_packet_out(in_port=1); po.actions.append(of.ofp_action_output(port=2))
      raw = list(po.pack()); b = hdr(13, len(raw) + n, xid) + raw[8:] + list(body); t = 13
    elif k == 'features_reply':
      fr = of.ofp_features_reply(datapath_id=7); fr.ports.append(of.ofp_phy_port(port_no=1, name='p1'))
      raw = list(fr.pack()); b = hdr(6, len(raw), xid) + raw[8:]; t = 6
    else: raise KeyError(k)
    msgs.append(b); types.append(t)
  return msgs, types


def chunks_of(ctx, stream, cuts, ncuts):
  """split the stream at symbolic (or given) positions; returns list of chunks (concretises the cut positions by forking)"""
  n = len(stream)
  if cuts == 'dribble': pos = list(range(1, n))
  elif cuts == 'sym':
    pos = []; prev = 0
    for j in range(ncuts):
      c = ctx.int('cut%d' % j, 0, n)
      ctx.assume(c >= prev)
      prev = c; pos.append(c)
  else: pos = list(cuts)
  out = []; last = 0
  for c in pos + [n]:
    c = int(c)
    out.append(stream[last:c]); last = c
  return [x for x in out]


class Dummy:
  sending = False
  def send(self, con, data): pass
  def kill(self, con): pass


def _check_delivery(ctx, delivered, msgs, types, fed, residual, step):
  """after feeding `fed` bytes: exactly the messages that are completely contained in the fed prefix were delivered"""
  total = 0; expect = 0
  for m in msgs:
    total += len(m)
    if total <= fed: expect += 1
  ctx.check('after chunk %d: delivered count' % step, len(delivered) == expect)
  off = sum(len(m) for m in msgs[:expect])
  ctx.check('after chunk %d: residual length' % step, len(residual) == fed - off)


def h_controller(ctx, kinds, cuts, ncuts=0):
  core = env.get_core()
  of01 = ctx.pox('pox.openflow.of_01'); of = ctx.pox('pox.openflow.libopenflow_01')
  of01.deferredSender = Dummy()
  msgs, types = make_stream(ctx, of, kinds)
  stream = env.tobytes(ctx, [x for m in msgs for x in m])
  sock = env.FakeSocket(eof=False)
  con = of01.Connection(sock)
  delivered = []
  con.handlers = [(lambda c, msg, t=t: delivered.append((t, msg.pack()))) for t in range(len(con.handlers))]
  fed = 0
  for step, ch in enumerate(chunks_of(ctx, stream, cuts, ncuts)):
    if len(ch) == 0: continue            # recv() returning b'' means EOF, not an empty segment
    sock.feed(ch); fed += len(ch)
    r = con.read()
    ctx.check('read() keeps the connection', r is True)
    _check_delivery(ctx, delivered, msgs, types, fed, con.buf, step)
  ctx.check('all delivered once, in order', len(delivered) == len(msgs))
  for (t, packed), m, mt in zip(delivered, msgs, types):
    ctx.check('type', t == mt)
    ctx.check('bytes identical', ctx.Eq(packed, env.tobytes(ctx, m)))
  ctx.check('residual empty', len(con.buf) == 0)
  ctx.witness('done')


def h_switch(ctx, kinds, cuts, ncuts=0):
  core = env.get_core()
  iow = ctx.pox('pox.lib.ioworker'); sw = ctx.pox('pox.datapaths.switch'); of = ctx.pox('pox.openflow.libopenflow_01')
  msgs, types = make_stream(ctx, of, kinds)
  stream = env.tobytes(ctx, [x for m in msgs for x in m])
  w = iow.IOWorker()
  w.socket = env.FakeSocket(eof=False)
  c = sw.OFConnection(w)
  delivered = []
  c.set_message_handler(lambda con, msg: delivered.append((msg.header_type, msg.pack())))
  fed = 0
  for step, ch in enumerate(chunks_of(ctx, stream, cuts, ncuts)):
    if len(ch) == 0: continue
    w._push_receive_data(ch); fed += len(ch)
    _check_delivery(ctx, delivered, msgs, types, fed, w.receive_buf, step)
  ctx.check('all delivered once, in order', len(delivered) == len(msgs))
  for (t, packed), m, mt in zip(delivered, msgs, types):
    ctx.check('type', t == mt)
    ctx.check('bytes identical', ctx.Eq(packed, env.tobytes(ctx, m)))
  ctx.check('residual empty', len(w.receive_buf) == 0)
  ctx.check('nothing sent back, not closed', not w.closed and not w._shutdown_send)
  ctx.witness('done')


def h_recv_boundary(ctx, extra):
  """controller: one echo request larger than the 2048-byte recv size, followed by a hello"""
  core = env.get_core()
  of01 = ctx.pox('pox.openflow.of_01'); of = ctx.pox('pox.openflow.libopenflow_01')
  of01.deferredSender = Dummy()
  xid = ctx.int('xid', 0, 0xffffffff)
  edge = ctx.bytes('edge', 6)
  n = 2048 - 8 + extra
  body = list(edge[:3]) + [0x5a] * (n - 6) + list(edge[3:])
  m1 = hdr(2, 8 + n, xid) + body
  m2 = hdr(0, 8, 7)
  stream = env.tobytes(ctx, m1 + m2)
  sock = env.FakeSocket(eof=False); con = of01.Connection(sock)
  delivered = []
  con.handlers = [(lambda c, msg, t=t: delivered.append((t, msg.pack()))) for t in range(len(con.handlers))]
  sock.feed(stream)
  rounds = 0
  while sock.chunks and rounds < 5:
    ctx.check('read ok', con.read() is True); rounds += 1
  ctx.check('two messages', len(delivered) == 2)
  if len(delivered) == 2:
    ctx.check('echo identical', ctx.Eq(delivered[0][1], env.tobytes(ctx, m1)))
    ctx.check('hello identical', ctx.Eq(delivered[1][1], env.tobytes(ctx, m2)))
  ctx.check('residual empty', len(con.buf) == 0)
  ctx.witness('done')


def h_big_last(ctx, nsmall, total):
  """controller: `nsmall` small messages and then, as the **last** message of the burst, one that is longer than a recv() - its head arrives in the
  same read as the small ones, nothing follows it.  Fed whole (the connection reads it 2048 bytes at a time) and cut at one symbolic position."""
  core = env.get_core()
  of01 = ctx.pox('pox.openflow.of_01'); of = ctx.pox('pox.openflow.libopenflow_01')
  of01.deferredSender = Dummy()
  xid = ctx.int('xid', 0, 0xffffffff)
  edge = ctx.bytes('edge', 6)
  n = total - 8
  body = list(edge[:3]) + [(k * 7 + 1) & 0xff for k in range(n - 6)] + list(edge[3:])
  small = [hdr(0, 8, 5), hdr(2, 8 + 12, 6) + [0x11] * 12, hdr(3, 8 + 40, 7) + [0x22] * 40][:nsmall]
  big = hdr(2, total, xid) + body
  msgs = small + [big]
  flat = [b for m in msgs for b in m]
  stream = env.tobytes(ctx, flat)
  sock = env.FakeSocket(eof=False); con = of01.Connection(sock)
  delivered = []
  con.handlers = [(lambda c, msg, t=t: delivered.append((t, msg.pack()))) for t in range(len(con.handlers))]
  cut = int(ctx.int('cut', 0, 6))
  where = [None, 1, len(flat) - total + 3, len(flat) - total + 8, len(flat) - total + 9, 2048, len(flat) - 1][cut]
  if where is None: sock.feed(stream)
  else:
    sock.feed(stream[:where]); 
  rounds = 0
  while sock.chunks and rounds < 8:
    ctx.check('read ok', con.read() is True); rounds += 1
  if where is not None:
    sock.feed(stream[where:])
    while sock.chunks and rounds < 16:
      ctx.check('read ok', con.read() is True); rounds += 1
  ctx.check('every message delivered once the last byte has arrived', len(delivered) == len(msgs))
  if len(delivered) == len(msgs):
    for (t, raw), m in zip(delivered, msgs): ctx.check('delivered bytes identical', ctx.Eq(raw, env.tobytes(ctx, m)))
  ctx.check('residual empty', len(con.buf) == 0)
  ctx.witness('done')


def h_large(ctx, side, total):
  """a maximal-size message (length field 0x7fff / 0x8000 / 0xffff) between two small ones, delivered in recv-sized pieces"""
  core = env.get_core()
  of01 = ctx.pox('pox.openflow.of_01'); of = ctx.pox('pox.openflow.libopenflow_01')
  xid = ctx.int('xid', 0, 0xffffffff)
  edge = ctx.bytes('edge', 6)
  n = total - 8
  body = list(edge[:3]) + [(k * 13 + 5) & 0xff for k in range(n - 6)] + list(edge[3:])
  m0 = hdr(0, 8, 5); m1 = hdr(2, total, xid) + body; m2 = hdr(2, 8, 9)
  msgs = [m0, m1, m2]
  stream = env.tobytes(ctx, m0 + m1 + m2)
  delivered = []
  if side == 'controller':
    of01.deferredSender = Dummy()
    sock = env.FakeSocket(eof=False); con = of01.Connection(sock)
    con.handlers = [(lambda c, msg, t=t: delivered.append((t, msg.pack()))) for t in range(len(con.handlers))]
    sock.feed(stream)
    rounds = 0
    while sock.chunks and rounds < 80:
      ctx.check('read ok', con.read() is True); rounds += 1
    ctx.check('residual empty', len(con.buf) == 0)
  else:
    iow = ctx.pox('pox.lib.ioworker'); sw = ctx.pox('pox.datapaths.switch')
    w = iow.IOWorker(); w.socket = env.FakeSocket(eof=False)
    c = sw.OFConnection(w)
    c.set_message_handler(lambda con, msg: delivered.append((msg.header_type, msg.pack())))
    # through the real socket-read step of the I/O loop (IOWorker._do_recv, one call per readable event, 8192-byte recv size): the socket
    # holds the whole stream; totals that are exact multiples of the recv size end on a full read with nothing more queued
    class Loop: _BUF_SIZE = 8192; _workers = set()
    w.socket.feed(stream); rounds = 0
    while w.socket.chunks and rounds < 40:
      w._do_recv(Loop); rounds += 1
    ctx.check('the socket was drained', not w.socket.chunks)
    ctx.check('residual empty', len(w.receive_buf) == 0)
    ctx.check('nothing sent back, not closed', not w.closed and not w._shutdown_send and len(w.send_buf) == 0)
  ctx.check('all delivered once, in order', len(delivered) == 3)
  for (t, packed), m in zip(delivered, msgs):
    ctx.check('type', t == m[1])
    ctx.check('bytes identical', ctx.Eq(packed, env.tobytes(ctx, m)))
  ctx.witness('done')


def h_switch_err(ctx, cuts, ncuts=0):
  """Switch side, a stream in which one message is of an unsupported type (rejected with an error from its header) and the handler fails for
  another one: [echo request, echo reply (handler raises), barrier request, type 99, echo request], cut at symbolic positions.  Every
  well-formed message of a known type is handed to the handler exactly once, in order, whatever the cuts; the unsupported one draws exactly
  one BAD_REQUEST / BAD_TYPE error with its xid; nothing escapes the receive path; nothing is left in the buffer."""
  core = env.get_core()
  iow = ctx.pox('pox.lib.ioworker'); sw = ctx.pox('pox.datapaths.switch'); of = ctx.pox('pox.openflow.libopenflow_01')
  xs = [ctx.int('xid%d' % i, 0, 0xffffffff) for i in range(5)]
  b1 = ctx.bytes('body1', 2); b3 = ctx.bytes('body3', 4)
  msgs = [hdr(2, 10, xs[0]) + list(b1), hdr(3, 8, xs[1]), hdr(18, 8, xs[2]), hdr(99, 12, xs[3]) + list(b3), hdr(2, 8, xs[4])]
  stream = env.tobytes(ctx, [x for m in msgs for x in m])
  w = iow.IOWorker(); w.socket = env.FakeSocket(eof=False)
  c = sw.OFConnection(w)
  delivered = []
  def handler(con, msg):
    delivered.append((msg.header_type, msg.xid))
    if msg.header_type == 3: raise RuntimeError("handler failure")
  c.set_message_handler(handler)
  escaped = None
  for step, ch in enumerate(chunks_of(ctx, stream, cuts, ncuts)):
    if len(ch) == 0: continue
    try:
      w._push_receive_data(ch)
    except Exception as ex:
      if type(ex).__module__.startswith('symx'): raise
      escaped = ex; break
  ctx.check('nothing escapes the receive path', escaped is None)
  exp = [(2, xs[0]), (3, xs[1]), (18, xs[2]), (2, xs[4])]
  ctx.check('known-type messages delivered once each, in order', len(delivered) == len(exp) and all(a[0] == b[0] and bool(a[1] == b[1]) for a, b in zip(delivered, exp)))
  ctx.check('residual empty', len(w.receive_buf) == 0)
  out = w.send_buf
  ctx.check('exactly one error reply: BAD_REQUEST / BAD_TYPE with the xid of the unsupported message, quoting it',
            len(out) == 12 + 12 and ctx.And(out[1] == 1, ((out[2] << 8) | out[3]) == 24, ((out[4] << 24) | (out[5] << 16) | (out[6] << 8) | out[7]) == xs[3],
                                            ((out[8] << 8) | out[9]) == 1, ((out[10] << 8) | out[11]) == 1) and ctx.Eq(out[12:], env.tobytes(ctx, msgs[3])))
  ctx.check('not closed', not w.closed and not w._shutdown_send)
  ctx.witness('done')


def h_burst(ctx, side, count):
  """one read that completes a long run of small messages (a burst of barrier / echo requests): every one of them is delivered by that read -
  nothing is left waiting in the buffer for bytes that may never come"""
  core = env.get_core()
  of01 = ctx.pox('pox.openflow.of_01'); iow = ctx.pox('pox.lib.ioworker'); sw = ctx.pox('pox.datapaths.switch')
  xs = [ctx.int('xid%d' % i, 0, 0xffffffff) for i in range(3)]
  def xid(i): return xs[0] if i == 0 else xs[1] if i == count // 2 else xs[2] if i == count - 1 else 0x1000 + i
  msgs = [hdr(18 if side == 'switch' else 19, 8, xid(i)) if i % 3 else hdr(2, 10, xid(i)) + [i & 255, 7] for i in range(count)]
  stream = env.tobytes(ctx, [x for m in msgs for x in m])
  delivered = []
  if side == 'switch':
    w = iow.IOWorker(); w.socket = env.FakeSocket(eof=False)
    c = sw.OFConnection(w)
    c.set_message_handler(lambda con, msg: delivered.append((msg.header_type, msg.xid)))
    w._push_receive_data(stream)
    ctx.check('residual empty', len(w.receive_buf) == 0)
  else:
    of01.deferredSender = Dummy()
    sock = env.FakeSocket(eof=False); con = of01.Connection(sock)
    con.handlers = [(lambda c_, msg, t=t: delivered.append((t, msg.xid))) for t in range(len(con.handlers))]
    sock.feed(stream); rounds = 0
    while sock.chunks and rounds < 10:
      ctx.check('read ok', con.read() is True); rounds += 1
    ctx.check('residual empty', len(con.buf) == 0)
  ctx.check('every message of the burst was delivered', len(delivered) == count)
  ctx.check('in order, with their xids', all(d[0] == m[1] and bool(d[1] == xid(i)) for i, (d, m) in enumerate(zip(delivered, msgs))))
  ctx.witness('done')


def h_live(ctx, tail, cuts, ncuts=0):
  """Controller side with its real handler tables (the handshake handlers replace themselves by the default ones when the barrier reply
  arrives): hello and features reply first, then one stream - the awaited barrier reply followed by asynchronous messages - cut at
  symbolic positions.  What the application sees (events, echo replies written back) must not depend on the cuts."""
  core = env.get_core()
  of01 = ctx.pox('pox.openflow.of_01'); of = ctx.pox('pox.openflow.libopenflow_01'); ofp = ctx.pox('pox.openflow')
  of01.deferredSender = Dummy(); of01.time = env.Clock(100)
  of.generate_xid = of.xid_generator(); of01.Connection.ID = 0
  nexus = ofp.OpenFlowNexus()
  core.components['openflow'] = nexus
  core.components['OpenFlowConnectionArbiter'] = ofp.OpenFlowConnectionArbiter(default=False)
  sock = env.FakeSocket(eof=False); con = of01.Connection(sock)
  seen = []
  for name in ('ConnectionUp', 'PacketIn', 'PortStatus', 'BarrierIn', 'FlowRemoved', 'ErrorIn'):
    con.addListenerByName(name, lambda e, name=name: seen.append((name, getattr(getattr(e, 'ofp', None), 'xid', None))))
  fr = of.ofp_features_reply(datapath_id=7, xid=3); fr.ports.append(of.ofp_phy_port(port_no=1, name='p1'))
  sock.feed(of.ofp_hello().pack() + fr.pack())
  ctx.check('read() keeps the connection', con.read() is True)
  bx = None
  for chunk in sock.sent:
    data = bytes(chunk); off = 0
    while off + 8 <= len(data):
      if data[off + 1] == 18: bx = int.from_bytes(data[off + 4:off + 8], 'big')
      off += (data[off + 2] << 8) | data[off + 3]
  ctx.check('the handshake sent a barrier request', bx is not None)
  del sock.sent[:]
  msgs = [hdr(19, 8, bx)]; expect = [('ConnectionUp', None)]; echoes = []
  for i, k in enumerate(tail):
    xid = ctx.int('xid%d' % i, 0, 0xffffffff)
    if k == 'packet_in':
      body = ctx.bytes('body%d' % i, 14)
      msgs.append(hdr(10, 18 + 14, xid) + be(0xffffffff, 4) + be(14, 2) + be(1, 2) + [0, 0] + list(body)); expect.append(('PacketIn', xid))
    elif k == 'port_status':
      raw = list(of.ofp_port_status(reason=0, desc=of.ofp_phy_port(port_no=2 + i, name='q%d' % i)).pack())
      msgs.append(hdr(12, len(raw), xid) + raw[8:]); expect.append(('PortStatus', xid))
    elif k == 'barrier': msgs.append(hdr(19, 8, xid)); expect.append(('BarrierIn', xid))
    elif k == 'flow_removed':
      raw = list(of.ofp_flow_removed().pack()); msgs.append(hdr(11, len(raw), xid) + raw[8:]); expect.append(('FlowRemoved', xid))
    elif k == 'echo':
      body = ctx.bytes('body%d' % i, 2); msgs.append(hdr(2, 10, xid) + list(body)); echoes.append(hdr(3, 10, xid) + list(body))
    elif k == 'error':
      # an error reply quoting (the first bytes of) the offending request, as every real one does
      # (type, code and the quoted bytes concrete: the default handler prints them - names and a hex dump -, which is not the subject here)
      msgs.append(hdr(1, 12 + 5, xid) + [0, 1, 0, 8] + [1, 14, 0, 0x48, 0x7f]); expect.append(('ErrorIn', xid))
    else: raise KeyError(k)
  stream = env.tobytes(ctx, [x for m in msgs for x in m])
  for step, ch in enumerate(chunks_of(ctx, stream, cuts, ncuts)):
    if len(ch) == 0: continue
    sock.feed(ch)
    ctx.check('read() keeps the connection', con.read() is True)
  ctx.check('events: one per message, in order', len(seen) == len(expect) and all(a[0] == b[0] for a, b in zip(seen, expect)))
  for a, b in zip(seen, expect):
    if b[1] is not None: ctx.check('event carries its message', a[1] == b[1])
  back = [x for chunk in sock.sent for x in list(chunk)]
  ctx.check('echo requests answered once each, in order', ctx.Eq(env.tobytes(ctx, back), env.tobytes(ctx, [x for e in echoes for x in e])))
  ctx.check('residual empty', len(con.buf) == 0)
  ctx.witness('done')


CTL_KINDS = ['hello', 'echo2', 'reply0', 'error1', 'barrier_rep', 'get_config_reply', 'packet_in3', 'features_reply']
SW_KINDS = ['hello', 'echo2', 'features_req', 'set_config', 'barrier_req', 'packet_out2', 'flow_mod', 'port_mod', 'error0']


def _streams(kinds, thorough):
  out = []
  for i, a in enumerate(kinds):
    b = kinds[(i + 1) % len(kinds)]; c = kinds[(i + 3) % len(kinds)]
    out.append([a, b]); out.append([a, b, c])
  if not thorough: out = out[::2] + out[1::6]
  return out


def obligations(tier):
  thorough = tier != 'quick'
  ctl = []; swc = []
  for i, s in enumerate(_streams(CTL_KINDS, thorough)):
    ctl.append(dict(kinds=s, cuts='sym', ncuts=1)); ctl.append(dict(kinds=s, cuts='dribble'))
    if thorough or i in (1, 4): ctl.append(dict(kinds=s, cuts='sym', ncuts=2))
  for i, s in enumerate(_streams(SW_KINDS, thorough)):
    swc.append(dict(kinds=s, cuts='sym', ncuts=1)); swc.append(dict(kinds=s, cuts='dribble'))
    if thorough or i in (1, 4): swc.append(dict(kinds=s, cuts='sym', ncuts=2))
  if thorough:
    ctl.append(dict(kinds=['echo2', 'hello', 'error1'], cuts='sym', ncuts=3))
    swc.append(dict(kinds=['echo2', 'hello', 'set_config'], cuts='sym', ncuts=3))
  BOUNDS[tier] = dict(messages_per_stream="2..3", cuts="every 1-cut; every 2-cut (quick: two streams per side, thorough: all); 1-byte dribble; 3 cuts on one stream (thorough)",
                      controller_types=CTL_KINDS, switch_types=SW_KINDS, recv_boundary="echo request of 2048-8+{0,1,2} body bytes followed by hello",
                      large="hello, echo request of total length 0x7fff / 0x8000 / 0xffff (symbolic xid and edge bytes), echo request; both sides")
  live = []
  for tail in (['packet_in', 'barrier'], ['port_status', 'echo', 'packet_in'], ['echo', 'flow_removed'], ['error', 'packet_in']) + ((['packet_in', 'packet_in', 'echo', 'barrier'],) if thorough else ()):
    live.append(dict(tail=tail, cuts='sym', ncuts=1)); live.append(dict(tail=tail, cuts=[]))
    if thorough or tail == ['packet_in', 'barrier']: live.append(dict(tail=tail, cuts='sym', ncuts=2))
    if thorough: live.append(dict(tail=tail, cuts='dribble'))
  return [
    Obligation('O7_burst', h_burst, [dict(side=sd, count=n) for sd in ('switch', 'controller') for n in ((150, 300) if not thorough else (129, 150, 300, 900))], witnesses=('done',), max_decisions=50000,
               desc='a single read completing 150-300 (thorough 900) small messages delivers all of them'),
    Obligation('O6_switch_errors', h_switch_err, [dict(cuts='sym', ncuts=1), dict(cuts='dribble'), dict(cuts=[])] + ([dict(cuts='sym', ncuts=2)] if thorough else []), witnesses=('done',), max_decisions=50000, conc_cap=400,
               desc='switch side: an unsupported type and a failing handler in the middle of a stream, every segmentation'),
    Obligation('O5_live_handlers', h_live, live, witnesses=('done',), max_decisions=50000, conc_cap=400,
               desc='controller with its real handler tables: the barrier reply that ends the handshake and the messages behind it, every segmentation'),
    Obligation('O1_controller', h_controller, ctl, witnesses=('done',), max_decisions=50000, conc_cap=400,
               desc='Connection.read: delivered sequence == sent sequence for every segmentation'),
    Obligation('O2_switch', h_switch, swc, witnesses=('done',), max_decisions=50000, conc_cap=400,
               desc='IOWorker + OFConnection.read: delivered sequence == sent sequence for every segmentation'),
    Obligation('O4_large', h_large, [dict(side=sd, total=t) for sd in ('controller', 'switch') for t in (0x7fff, 0x8000, 0xffff)] + [dict(side='switch', total=t) for t in (8192 - 16, 16384 - 16)], witnesses=('done',), max_decisions=50000,
               desc='messages with length field 0x7fff / 0x8000 / 0xffff are framed like any other, on both sides'),
    Obligation('O3_big_last', h_big_last, [dict(nsmall=k, total=t) for k, t in ((1, 2100), (2, 3090), (3, 4200), (2, 2049))], witnesses=('done',), max_decisions=50000,
               desc='a message longer than one recv() as the last message of a burst, behind small ones in the same read'),
    Obligation('O3_recv2048', h_recv_boundary, [dict(extra=e) for e in (0, 1, 2)], witnesses=('done',), max_decisions=50000,
               desc="controller recv(2048) boundary: a message longer than one recv() is reassembled"),
  ]
