"""C14 - packet headers survive build->bytes->parse with valid lengths and checksums."""
from symx.run import Obligation

CLAIM = {
 'technique': "bounded symbolic execution of the real packet library with z3 (symx): checksum vs RFC 1071 reference over LIA, per-path solver verdicts",
 'text': "For every buffer up to the stated length (all byte values, odd and even lengths, start and skip_word variants) z3 proves "
         "pox.lib.packet.packet_utils.checksum equal to an independent RFC 1071 reference; counterexamples are replayed on the unmodified code. "
         "Bounded: nothing is claimed beyond the stated lengths.",
 'note': "Trusted: CPython, z3, symx proxies and the struct/array/ntohs models (validated differentially by symx.selftest), the reference in props/C14.py.",
}

EXPLANATION = ("Bounded symbolic execution of pox.lib.packet: the real checksum(), hdr()/pack() and parse() run on "
               "symbolic header fields / payload bytes; every path's assertion (RFC 1071 reference equality, "
               "round-trip equality, emitted length fields) is decided by z3 over QF_BV.")
FUNCTIONS = ["pox.lib.packet.packet_utils.checksum"]
BOUNDS = {}
OUTSIDE = []
ASSUMPTIONS = ["struct/array/socket byte-order calls are modelled by symx.shims (validated differentially)"]


def fold16(s):
  s = (s >> 16) + (s & 0xffff)
  s = s + (s >> 16)
  return s & 0xffff


def rfc1071(data, skip_word=None, init=0):
  """independent reference: big-endian 16-bit one's complement sum, odd tail padded with a zero byte"""
  s = init
  n = len(data)
  for i in range(0, n - 1, 2):
    if skip_word is not None and i // 2 == skip_word: continue
    s = s + ((data[i] << 8) | data[i + 1])
  if n % 2: s = s + (data[n - 1] << 8)
  s = (s & 0xffff) + (s >> 16)
  s = (s & 0xffff) + (s >> 16)
  return (~s) & 0xffff


def h_checksum(ctx, n, mode):
  pu = ctx.pox('pox.lib.packet.packet_utils')
  data = ctx.bytes('data', n)
  if mode == 'plain':
    r = pu.checksum(data)
    ref = rfc1071(data)
  elif mode == 'start':
    start = ctx.int('start', 0, 0xffff)
    r = pu.checksum(data, start)
    ref = rfc1071(data, None, ((start & 0xff) << 8) | (start >> 8))
  else:
    k = int(mode[4:])
    r = pu.checksum(data, 0, k)
    ref = rfc1071(data, k)
  ctx.witness('returned')
  ctx.check('rfc1071', r == ref)
  ctx.check('range16', ctx.And(r >= 0, r <= 0xffff))


def obligations(tier):
  maxn = 8 if tier == "quick" else 24
  cases = []
  for n in range(0, maxn + 1):
    cases.append(dict(n=n, mode='plain'))
    cases.append(dict(n=n, mode='start'))
    for k in sorted(set([0, 1, n // 2 - 1, n // 2, 9, 14])):
      if 0 <= k <= n // 2: cases.append(dict(n=n, mode='skip%d' % k))
  BOUNDS[tier] = dict(checksum_len="0..%d bytes, all contents; start 0..0xffff; skip_word in {0,1,n/2-1,n/2,9,14}" % maxn)
  return [Obligation('O1_checksum', h_checksum, cases, witnesses=('returned',), mode='int', solver_timeout_ms=120000,
                     desc='packet_utils.checksum == RFC 1071 reference for all buffers up to the bound (odd and even)')]
