"""C14 - packet headers survive build->bytes->parse with valid lengths and checksums."""
from symx.run import Obligation
from props import env

CLAIM = {
 'technique': "bounded symbolic execution of the real packet library with z3 (symx): header stacks assembled from symbolic fields -> bytes -> parse -> bytes over QF_BV; checksum() vs an RFC 1071 reference over LIA",
 'text': "O1: for every buffer up to the stated length (all byte values, odd and even, start and skip_word variants) z3 proves packet_utils.checksum equal to "
         "an independent RFC 1071 reference. O2: ~100 header stacks covering every protocol of the statement (Ethernet, VLAN, LLC/SNAP, ARP/RARP, IPv4 with "
         "options and fragments, IPv6 with hop-by-hop/routing/fragment/destination headers, ICMP echo/unreachable/time-exceeded, ICMPv6 echo/ND RS RA NS NA "
         "with options/errors, TCP with 8 option mixes, UDP, DHCP, DNS, LLDP with optional TLVs, MPLS stacks, GRE, VXLAN, IGMP v2/v3, RIP, EAPOL/EAP) are "
         "assembled through the public constructors with every header field symbolic over its wire width and a symbolic payload of 0/1/4 (thorough "
         "0/1/2/5/8) bytes; on every path z3 proves: serialised length == sum of header lengths + payload; parsing the bytes yields the same layer "
         "classes, equal header fields, options/TLVs/records and payload; re-serialising the parsed packet is byte-identical; and the emitted IPv4 "
         "total-length/IHL, IPv6 payload-length, UDP length, TCP data offset fields and the IPv4 header, ICMP, IGMP, GRE, ICMPv6 and UDP/TCP pseudo-header "
         "(v4 and v6) checksum fields, read back at their wire offsets, equal values computed from the emitted bytes. O3: GRE with a computed checksum "
         "re-serialised (POX re-verifies it)."
         " Also: LLDP information strings of 300 and 507 octets, LLC control octets of every one-octet form, DNS name-compression chains, DHCP messages with several address-list options. A DNS message longer than 1 KiB with far compression pointers; IPv6 extension chains assembled through add_header().",
 'note': "Trusted: CPython, z3, symx proxies and struct/array/ntohs models (./check SELFTEST), the builders and byte-offset readers in props/C14.py. Checksum "
         "fields are compared with checksum() applied to the emitted bytes with the field zeroed (placement and coverage); that checksum() is RFC 1071 "
         "is O1 (up to 8 bytes quick / 64 bytes thorough). Names in DNS, DHCP option sets and TLV list shapes are concrete per case; payloads beyond 8 "
         "bytes, and 1500-byte frames, are outside the claim.",
}

EXPLANATION = ("Real packet_base.pack/set_payload, every hdr()/parse()/checksum() of pox.lib.packet and the option/TLV/record codecs executed on packets "
               "assembled from symbolic fields; field/payload equality, byte-identical re-serialisation and emitted length/checksum fields decided by z3 "
               "per path; checksum() == RFC 1071 decided over LIA.")
FUNCTIONS = ["pox.lib.packet.packet_utils.checksum", "packet_base.pack/set_payload/_init",
             "ethernet/vlan/llc/arp/ipv4/ipv6(+ExtensionHeader classes)/icmp(echo,unreach,time_exceeded)/icmpv6(echo,unreach,TimeExceeded,PacketTooBig,ND*,NDOpt*)/"
             "tcp(+tcp_opt)/udp/dhcp(+DHCP*Option)/dns(question,rr)/lldp(+TLV classes)/mpls/gre/vxlan/igmp(+GroupRecord)/rip(+RIPEntry)/eapol/eap .hdr/.parse/.checksum"]
BOUNDS = {}
OUTSIDE = ["payloads longer than 8 bytes (the statement's 0..1500); frames near the 1500-byte MTU", "option / TLV / record lists other than the listed shapes",
           "symbolic characters in DNS names, DHCP option sets other than the listed ones, DHCP option overload",
           "GRE with a computed checksum and more than 1 payload byte is not re-serialised (POX's own re-verification assert needs the one's complement identity, which z3 does not decide in reach); GRE routing entries; GRE version != 0",
           "MPTCP options", "UDP ports whose payload POX parses further, other than in their own stacks", "RFC 1071 equivalence of checksum() beyond 64 bytes",
           "frames with trailing Ethernet padding"]
ASSUMPTIONS = ["struct/array/socket byte-order calls are modelled by symx.shims (validated by ./check SELFTEST)",
               "LLC/SNAP stack with symbolic OUI assumes OUI != 0 (OUI 0 has its own stacks); symbolic UDP ports exclude 67, 68, 53, 5353, 520, 4789"]


def fold16(s):
  s = (s >> 16) + (s & 0xffff)
  s = s + (s >> 16)
  return s & 0xffff


def rfc1071(data, skip_word=None, init=0):
  """independent reference: big-endian 16-bit one's complement sum, odd tail padded with a zero byte"""
  s = init
  n = len(data)
  for i in range(0, n - 1, 2):
    if skip_word is not None and i // 2 == skip_word: continue
    s = s + ((data[i] << 8) | data[i + 1])
  if n % 2: s = s + (data[n - 1] << 8)
  s = (s & 0xffff) + (s >> 16)
  s = (s & 0xffff) + (s >> 16)
  return (~s) & 0xffff


def h_checksum(ctx, n, mode):
  pu = ctx.pox('pox.lib.packet.packet_utils')
  data = ctx.bytes('data', n)
  if mode == 'plain':
    r = pu.checksum(data)
    ref = rfc1071(data)
  elif mode == 'start':
    start = ctx.int('start', 0, 0xffff)
    r = pu.checksum(data, start)
    ref = rfc1071(data, None, ((start & 0xff) << 8) | (start >> 8))
  else:
    k = int(mode[4:])
    r = pu.checksum(data, 0, k)
    ref = rfc1071(data, k)
  ctx.witness('returned')
  ctx.check('rfc1071', r == ref)
  ctx.check('range16', ctx.And(r >= 0, r <= 0xffff))



# ------------------------------------------------------------------------------------------------------------------------
# O2/O3: header stacks   build -> bytes -> parse -> bytes
def be(v, n):
  return [(v >> (8 * (n - 1 - i))) & 0xff for i in range(n)]


def num(bs):
  r = 0
  for b in bs: r = (r << 8) | b
  return r


class L:
  """one layer of an assembled packet: the object, the fields that must survive, where its header starts and how long it is"""
  def __init__(self, obj, fields, hlen):
    self.obj = obj; self.fields = fields; self.hlen = hlen; self.off = None


class B:
  """builders; every field is symbolic over its wire width unless it selects the shape of the packet"""
  def __init__(self, ctx):
    self.ctx = ctx; self.P = ctx.pox('pox.lib.packet'); self.A = ctx.pox('pox.lib.addresses'); self.k = 0
    self.pu = ctx.pox('pox.lib.packet.packet_utils')
  def n(self, name):
    self.k += 1; return '%s%d' % (name, self.k)
  def i(self, name, bits): return self.ctx.int(self.n(name), 0, (1 << bits) - 1)
  def mac(self, name): return self.A.EthAddr(self.ctx.bytes(self.n(name), 6))
  def ip(self, name): return self.A.IPAddr(self.ctx.bytes(self.n(name), 4))
  def eth(self, type_):
    e = self.P.ethernet(); e.dst = self.mac('edst'); e.src = self.mac('esrc'); e.type = type_
    return L(e, dict(dst=e.dst, src=e.src, type=type_), 14)
  def vlan(self, type_):
    v = self.P.vlan(); v.pcp = self.i('pcp', 3); v.cfi = self.i('cfi', 1); v.id = self.i('vid', 12); v.eth_type = type_
    return L(v, dict(pcp=v.pcp, cfi=v.cfi, id=v.id, eth_type=type_), 4)
  def ipv4(self, proto, opt=0, frag=False):
    p = self.P.ipv4(); p.tos = self.i('tos', 8); p.id = self.i('ipid', 16); p.flags = self.i('ipflags', 3); p.ttl = self.i('ttl', 8)
    p.frag = self.i('frag', 13) if frag else 0
    p.protocol = proto; p.srcip = self.ip('nsrc'); p.dstip = self.ip('ndst')
    if opt:
      p.raw_options = self.ctx.bytes(self.n('ipopt'), opt); p.hl = 5 + opt // 4
    return L(p, dict(v=4, hl=p.hl, tos=p.tos, id=p.id, flags=p.flags, frag=p.frag, ttl=p.ttl, protocol=proto, srcip=p.srcip, dstip=p.dstip,
                     raw_options=p.raw_options), 20 + opt)
  def udp(self, sport=None, dport=None):
    u = self.P.udp(); u.srcport = self.i('sport', 16) if sport is None else sport; u.dstport = self.i('dport', 16) if dport is None else dport
    for special in (67, 68, 53, 5353, 520, 4789):      # ports whose payload POX parses further have their own stacks
      if sport is None: self.ctx.assume(u.srcport != special)
      if dport is None: self.ctx.assume(u.dstport != special)
    return L(u, dict(srcport=u.srcport, dstport=u.dstport), 8)
  def tcp(self, opts=()):
    P = self.P
    t = P.tcp(); t.srcport = self.i('sport', 16); t.dstport = self.i('dport', 16); t.seq = self.i('seq', 32); t.ack = self.i('ack', 32)
    t.res = self.i('res', 4); t.flags = self.i('tflags', 8); t.win = self.i('win', 16); t.urg = self.i('urg', 16)
    to = P.tcp_opt; ol = []; olen = 0
    for o in opts:
      if o == 'nop': ol.append(to(to.NOP, None)); olen += 1
      elif o == 'mss': ol.append(to(to.MSS, self.i('mss', 16))); olen += 4
      elif o == 'ws': ol.append(to(to.WSOPT, self.i('ws', 8))); olen += 3
      elif o == 'sackperm': ol.append(to(to.SACKPERM, None)); olen += 2
      elif o == 'ts': ol.append(to(to.TSOPT, (self.i('tsv', 32), self.i('tse', 32)))); olen += 10
      elif o == 'sack1': ol.append(to(to.SACK, [(self.i('sl', 32), self.i('sr', 32))])); olen += 10
      elif o == 'unk': ol.append(to(200, self.ctx.bytes(self.n('unk'), 2))); olen += 4
      else: raise ValueError(o)
    t.options = ol
    hlen = 20 + (olen + 3) // 4 * 4
    return L(t, dict(srcport=t.srcport, dstport=t.dstport, seq=t.seq, ack=t.ack, off=hlen // 4, res=t.res, flags=t.flags, win=t.win, urg=t.urg,
                     options=[(o.type, o.val) for o in ol]), hlen)
  def icmp(self, type_, code=None):
    c = self.P.icmp(); c.type = type_; c.code = self.i('icode', 8) if code is None else code
    return L(c, dict(type=type_, code=c.code), 4)
  def echo(self):
    e = self.P.echo(); e.id = self.i('eid', 16); e.seq = self.i('eseq', 16)
    return L(e, dict(id=e.id, seq=e.seq), 4)
  def unreach(self):
    u = self.P.unreach(); u.unused = self.i('unused', 16); u.next_mtu = self.i('mtu', 16)
    return L(u, dict(unused=u.unused, next_mtu=u.next_mtu), 4)
  def time_exceeded(self):
    u = self.P.time_exceeded(); u.unused = self.i('unused', 32)
    return L(u, dict(unused=u.unused), 4)
  def arp(self):
    a = self.P.arp(); a.opcode = self.i('op', 16); a.hwsrc = self.mac('hs'); a.hwdst = self.mac('hd'); a.protosrc = self.ip('ps'); a.protodst = self.ip('pd')
    return L(a, dict(hwtype=1, prototype=0x800, hwlen=6, protolen=4, opcode=a.opcode, hwsrc=a.hwsrc, hwdst=a.hwdst, protosrc=a.protosrc, protodst=a.protodst), 28)
  def mpls(self, bos):
    m = self.P.mpls(); m.label = self.i('label', 20); m.tc = self.i('tc', 3); m.s = bos; m.ttl = self.i('mttl', 8)
    return L(m, dict(label=m.label, tc=m.tc, s=bos, ttl=m.ttl), 4)
  def llc(self, snap=None, two_byte_control=False):
    l = self.P.llc(); ctx = self.ctx
    if snap is None:
      l.dsap = self.i('dsap', 8); l.ssap = self.i('ssap', 8)
      ctx.assume(ctx.Not(ctx.And((l.dsap & 0xfe) == 0xaa, (l.ssap & 0xfe) == 0xaa)))
    else:
      l.dsap = 0xaa; l.ssap = 0xaa; l.oui = ctx.bytes(self.n('oui'), 3) if snap == 'sym' else snap[0]; l.eth_type = self.i('snaptype', 16) if snap == 'sym' else snap[1]
    if two_byte_control:
      l.control = self.i('control', 16); ctx.assume(ctx.Or((l.control & 1) == 0, (l.control & 3) == 2)); hl = 4
    else:
      l.control = self.i('control', 8); ctx.assume((l.control & 1) == 1); hl = 3      # every control octet the parser reads as one octet (U format and the low bits 01)
    if snap == 'sym': ctx.assume(ctx.Not(ctx.Eq(l.oui, b'\0\0\0')))      # OUI 0 = encapsulated ethertype: stacks snap_ip / snap_other
    if snap is not None: hl += 5
    l.length = hl
    f = dict(dsap=l.dsap, ssap=l.ssap, control=l.control)
    if snap is not None: f.update(oui=l.oui, eth_type=l.eth_type)
    return L(l, f, hl)


def _ipv6_builders():
  def ip6(self, name): return self.A.IPAddr6(self.ctx.bytes(self.n(name), 16), raw=True)
  def ipv6(self, nh, ehs=()):
    I6 = self.ctx.pox('pox.lib.packet.ipv6')
    p = self.P.ipv6(); p.tc = self.i('tc6', 8); p.flow = self.i('flow', 20); p.hop_limit = self.i('hlim', 8)
    p.srcip = ip6(self, 'src6'); p.dstip = ip6(self, 'dst6')
    hdrs = []; elen = 0
    kinds = {'hop': (I6.HopByHopOptions, 0), 'route': (I6.Routing, 43), 'frag': (I6.Fragment, 44), 'fragdef': (I6.Fragment, 44), 'dest': (I6.DestinationOptions, 60)}
    chain = [kinds[e.split(':')[0]][1] for e in ehs] + [nh]
    for j, e in enumerate(ehs):
      kind, _, blen = e.partition(':')
      cls = kinds[kind][0]
      if kind == 'fragdef':
        h = cls(); elen += 8                      # a Fragment header left at its default body (seven zero octets)
      elif kind == 'frag':
        h = cls(raw_body=self.ctx.bytes(self.n('fragbody'), 7)); elen += 8
      else:
        blen = int(blen or 6)
        h = cls(raw_body=self.ctx.bytes(self.n(kind + 'body'), blen), payload_length=blen); elen += 2 + blen
      h.next_header_type = chain[j + 1]
      hdrs.append(h)
    if hdrs and bool(self.ctx.bool(self.n('via_add_header'))):
      # the other public way to assemble the chain: add_header() appends and links each header to its predecessor; the caller names what follows the last one
      for h in hdrs:
        h.next_header_type = None
        p.add_header(h)
      hdrs[-1].next_header_type = nh
    else:
      p.extension_headers = hdrs
      p.next_header_type = chain[0]
    l = L(p, dict(v=6, tc=p.tc, flow=p.flow, hop_limit=p.hop_limit, srcip=p.srcip, dstip=p.dstip, next_header_type=chain[0],
                  extension_headers=[(type(h).__name__, h.next_header_type, h.raw_body) for h in hdrs]), 40 + elen)
    l.upper = nh
    return l
  def icmpv6(self, type_, code=None):
    c = self.P.icmpv6(); c.type = type_; c.code = self.i('icode', 8) if code is None else code
    return L(c, dict(type=type_, code=c.code), 4)
  def echo6(self):
    m = self.ctx.pox('pox.lib.packet.icmpv6')
    e = m.echo(); e.id = self.i('eid', 16); e.seq = self.i('eseq', 16)
    return L(e, dict(id=e.id, seq=e.seq), 4)
  B.ipv6 = ipv6; B.icmpv6 = icmpv6; B.echo6 = echo6
_ipv6_builders()


def _more_builders():
  def igmp(self, vt):
    g = self.P.igmp(); g.ver_and_type = vt; g.max_response_time = self.i('mrt', 8); g.address = self.ip('group')
    g.extra = self.ctx.bytes(self.n('extra'), self.extra); self.extra_used = True
    return L(g, dict(ver_and_type=vt, max_response_time=g.max_response_time, address=g.address, extra=g.extra), 8 + self.extra)
  def igmp3(self, nrec, nsrc=1, aux=0):
    m = self.ctx.pox('pox.lib.packet.igmp')
    g = self.P.igmp(); g.ver_and_type = 0x22; recs = []; ln = 8
    for r in range(nrec):
      rec = m.GroupRecord(type=self.i('rtype', 8), address=self.ip('raddr'), source_addresses=[self.ip('rsrc') for _ in range(nsrc)],
                          aux=self.ctx.bytes(self.n('aux'), aux))
      recs.append(rec); ln += 8 + 4 * nsrc + aux
    g.group_records = recs
    g.extra = self.ctx.bytes(self.n('extra'), self.extra); self.extra_used = True
    return L(g, dict(ver_and_type=0x22, extra=g.extra, group_records=[(r.type, r.address, list(r.source_addresses), r.aux) for r in recs]), ln + self.extra)
  def vxlan(self, with_vni=True):
    v = self.P.vxlan(); v.vni = self.i('vni', 24) if with_vni else None
    return L(v, dict(vni=v.vni), 8)
  def gre(self, type_, key=False, seq=False, csum=False):
    g = self.P.gre(); g.type = type_
    g.key = self.i('grekey', 32) if key else None; g.seq = self.i('greseq', 32) if seq else None
    g.strict_source_route = bool(self.ctx.bool(self.n('ssr'))); g.recursion = self.i('recur', 3)
    if csum: g.csum = True; g.route_offset = self.i('roff', 16)
    f = dict(type=type_, key=g.key, seq=g.seq, strict_source_route=g.strict_source_route, recursion=g.recursion, ver=0)
    if csum: f['route_offset'] = g.route_offset
    l = L(g, f, 4 + (4 if key else 0) + (4 if seq else 0) + (4 if csum else 0)); l.csum = csum
    return l
  def rip(self, nent):
    m = self.ctx.pox('pox.lib.packet.rip')
    r = self.P.rip(); r.command = self.i('ripcmd', 8); r.version = self.i('ripver', 8); ents = []
    for k in range(nent):
      e = m.RIPEntry(address_family=self.i('af', 16), route_tag=self.i('tag', 16), ip=self.ip('rip'), netmask=self.ip('rmask'), next_hop=self.ip('rnh'),
                     metric=self.i('metric', 32))
      ents.append(e)
    r.entries = ents
    return L(r, dict(command=r.command, version=r.version, entries=[(e.address_family, e.route_tag, e.ip, e.netmask, e.next_hop, e.metric) for e in ents]), 4 + 20 * nent)
  def eapol(self, type_):
    e = self.P.eapol(); e.version = self.i('eapolver', 8); e.type = type_; e.bodylen = self.i('bodylen', 16)
    return L(e, dict(version=e.version, type=type_, bodylen=e.bodylen), 4)
  def eap(self, code):
    e = self.P.eap(); e.code = code; e.id = self.i('eapid', 8); e.length = self.i('eaplen', 16)
    f = dict(code=code, id=e.id, length=e.length); hl = 4
    if code in (1, 2): e.type = self.i('eaptype', 8); f['type'] = e.type; hl = 5
    return L(e, f, hl)
  def tlv_tuple(t):
    n = type(t).__name__
    if n in ('chassis_id', 'port_id'): return (n, t.subtype, t.id)
    if n == 'ttl': return (n, t.ttl)
    if n == 'end_tlv': return (n,)
    if n == 'system_capabilities': return (n, list(t.caps), list(t.enabled_caps))
    if n == 'management_address': return (n, t.address_subtype, t.address, t.interface_numbering_subtype, t.interface_number, t.object_identifier)
    if n == 'organizationally_specific': return (n, t.oui, t.subtype, t.payload)
    return (n, t.tlv_type, t.payload)
  B.tlv_tuple = staticmethod(tlv_tuple)
  def lldp(self, extra=()):
    m = self.ctx.pox('pox.lib.packet.lldp'); ctx = self.ctx
    p = self.P.lldp(); k = self.extra; self.extra_used = True
    tl = [m.chassis_id(subtype=self.i('csub', 8), id=ctx.bytes(self.n('cid'), 1 + k)), m.port_id(subtype=self.i('psub', 8), id=ctx.bytes(self.n('pid'), 1 + k)),
          m.ttl(ttl=self.i('lttl', 16))]
    for e in extra:
      if e == 'name': tl.append(m.system_name(payload=ctx.bytes(self.n('sysname'), 3)))
      elif e == 'desc': tl.append(m.system_description(payload=ctx.bytes(self.n('sysdesc'), k)))
      elif e == 'pdesc': tl.append(m.port_description(payload=ctx.bytes(self.n('pdesc'), 2)))
      elif e in ('longdesc', 'longorg'):
        # information strings of 256..511 octets need the ninth bit of the TLV length (two symbolic bytes at the ends, the rest concrete)
        ln = {'longdesc': 300, 'longorg': 511 - 4}[e]
        body = env.tobytes(ctx, [self.i('lfirst', 8)] + [(j * 7 + 1) & 0xff for j in range(ln - 2)] + [self.i('llast', 8)])
        tl.append(m.system_description(payload=body) if e == 'longdesc' else m.organizationally_specific(oui=b'\x00\x12\x0f', subtype=1, payload=body))
      elif e == 'caps':
        # pack()/parse() branch on every capability bit: two bits of each word are symbolic, the others alternate
        c = m.system_capabilities(); cb = {0: ctx.bool(self.n('cap0')), 15: ctx.bool(self.n('cap15'))}; eb = {3: ctx.bool(self.n('en3')), 8: ctx.bool(self.n('en8'))}
        c.caps = [cb.get(j, j % 3 == 1) for j in range(16)]
        c.enabled_caps = [eb.get(j, j % 2 == 1) for j in range(16)]
        tl.append(c)
      elif e == 'mgmt':
        tl.append(m.management_address(address_subtype=self.i('asub', 8), address=ctx.bytes(self.n('maddr'), 4), interface_numbering_subtype=self.i('insub', 8),
                                       interface_number=self.i('ifnum', 32), object_identifier=ctx.bytes(self.n('oid'), k)))
      elif e == 'org': tl.append(m.organizationally_specific(oui=ctx.bytes(self.n('oui'), 3), subtype=self.i('osub', 8), payload=ctx.bytes(self.n('opay'), k)))
      elif e == 'unknown':
        u = m.unknown_tlv(); u.tlv_type = 100; u.payload = ctx.bytes(self.n('upay'), 2); tl.append(u)
    tl.append(m.end_tlv())
    p.tlvs = tl
    hl = sum(2 + len(t._pack_data()) for t in tl)
    return L(p, dict(tlvs=[tlv_tuple(t) for t in tl]), hl)
  def ndopt_tuple(o):
    n = type(o).__name__
    if n in ('NDOptSourceLinkLayerAddress', 'NDOptTargetLinkLayerAddress'): return (n, o.address)
    if n == 'NDOptMTU': return (n, o.mtu)
    if n == 'NDOptPrefixInformation': return (n, o.prefix_length, o.on_link, o.is_autonomous, o.valid_lifetime, o.preferred_lifetime, o.prefix)
    return (n, o.TYPE, o.raw)
  B.ndopt_tuple = staticmethod(ndopt_tuple)
  def ndopts(self, kinds):
    m = self.ctx.pox('pox.lib.packet.icmpv6'); ctx = self.ctx; out = []; ln = 0
    for k in kinds:
      if k == 'slla': out.append(m.NDOptSourceLinkLayerAddress(address=self.mac('slla'))); ln += 8
      elif k == 'tlla': out.append(m.NDOptTargetLinkLayerAddress(address=self.mac('tlla'))); ln += 8
      elif k == 'mtu': out.append(m.NDOptMTU(mtu=self.i('ndmtu', 32))); ln += 8
      elif k == 'prefix':
        out.append(m.NDOptPrefixInformation(prefix_length=self.i('plen', 8), on_link=bool(ctx.bool(self.n('onlink'))), is_autonomous=bool(ctx.bool(self.n('auton'))),
                                            valid_lifetime=self.i('valid', 32), preferred_lifetime=self.i('pref', 32),
                                            prefix=self.A.IPAddr6(ctx.bytes(self.n('prefix'), 16), raw=True))); ln += 32
      elif k == 'generic':
        g = m.NDOptionGeneric(); g.TYPE = 77; g.raw = ctx.bytes(self.n('gen'), 6); out.append(g); ln += 8
    return out, ln
  def nd(self, kind, opts=()):
    m = self.ctx.pox('pox.lib.packet.icmpv6'); ctx = self.ctx
    ol, oln = ndopts(self, opts)
    if kind == 'rs':
      o = m.NDRouterSolicitation(); o.options = ol; f = {}; hl = 4
    elif kind == 'ra':
      o = m.NDRouterAdvertisement(); o.hop_limit = self.i('rahl', 8); o.is_managed = bool(ctx.bool(self.n('managed'))); o.is_other = bool(ctx.bool(self.n('other')))
      o.lifetime = self.i('ralife', 16); o.reachable = self.i('reach', 32); o.retrans_timer = self.i('retrans', 32); o.options = ol
      f = dict(hop_limit=o.hop_limit, is_managed=o.is_managed, is_other=o.is_other, lifetime=o.lifetime, reachable=o.reachable, retrans_timer=o.retrans_timer); hl = 12
    elif kind == 'ns':
      o = m.NDNeighborSolicitation(); o.target = self.A.IPAddr6(ctx.bytes(self.n('target'), 16), raw=True); o.options = ol; f = dict(target=o.target); hl = 20
    elif kind == 'na':
      o = m.NDNeighborAdvertisement(); o.target = self.A.IPAddr6(ctx.bytes(self.n('target'), 16), raw=True); o.options = ol
      o.is_router = bool(ctx.bool(self.n('router'))); o.is_solicited = bool(ctx.bool(self.n('solicited'))); o.is_override = bool(ctx.bool(self.n('override')))
      f = dict(target=o.target, is_router=o.is_router, is_solicited=o.is_solicited, is_override=o.is_override); hl = 20
    f['options'] = [ndopt_tuple(x) for x in ol]
    l = L(o, f, hl + oln); l.nd = True
    return l
  def icmp6err(self, kind):
    m = self.ctx.pox('pox.lib.packet.icmpv6')
    if kind == 'texc': o = m.TimeExceeded(); f = {}
    elif kind == 'toobig': o = m.PacketTooBig(); o.mtu = self.i('mtu6', 32); f = dict(mtu=o.mtu)
    else: o = m.unreach(); o.unused = self.i('unused6', 32); f = dict(unused=o.unused)
    return L(o, f, 4)
  B.icmp6err = icmp6err
  def dns(self, shape):
    ctx = self.ctx; D = self.P.dns
    d = D(); d.id = self.i('dnsid', 16); d.qr = bool(ctx.bool(self.n('qr'))); d.opcode = self.i('opcode', 3); d.aa = True; d.tc = False
    d.rd = bool(ctx.bool(self.n('rd'))); d.ra = False; d.z = True; d.ad = False; d.cd = bool(ctx.bool(self.n('cd'))); d.rcode = self.i('rcode', 4)
    q = lambda name: D.question(name, self.i('qtype', 16), self.i('qclass', 16))
    def rr(name, qtype, data): return D.rr(name, qtype, self.i('rclass', 16), self.i('rttl', 32), 0, data)
    if shape == 'q1': d.questions = [q('ab.c')]
    elif shape == 'q2': d.questions = [q('ab.c'), q('x.ab.c')]
    elif shape == 'q1a1': d.questions = [q('ab.c')]; d.answers = [rr('ab.c', 1, self.ip('rdata'))]
    elif shape == 'aaaa_txt':
      d.answers = [rr('h.example', 28, self.A.IPAddr6(ctx.bytes(self.n('rdata6'), 16), raw=True))]; d.additional = [rr('h.example', 16, ctx.bytes(self.n('txt'), 3))]
    elif shape == 'cname_ns_ptr':
      d.questions = [q('w.ab.c')]; d.answers = [rr('w.ab.c', 5, 'x.ab.c')]; d.authorities = [rr('ab.c', 2, 'ns.ab.c')]; d.additional = [rr('4.3.2.1.in-addr.arpa', 12, 'w.ab.c')]
    elif shape == 'cname_chain':
      # names that are first written in compressed form (labels + pointer) and referred to again later, whole and as a suffix
      d.questions = [q('www.ab.c')]
      d.answers = [rr('www.ab.c', 5, 'web.ab.c'), rr('web.ab.c', 5, 'lb.web.ab.c'), rr('lb.web.ab.c', 1, self.ip('rdata'))]
    elif shape == 'referral':
      d.questions = [q('x.sub.ab.c')]
      d.authorities = [rr('sub.ab.c', 2, 'ns1.sub.ab.c'), rr('sub.ab.c', 2, 'ns2.ab.c')]
      d.additional = [rr('ns1.sub.ab.c', 1, self.ip('glue1')), rr('ns2.ab.c', 1, self.ip('glue2')), rr('ns1.sub.ab.c', 28, self.A.IPAddr6(ctx.bytes(self.n('glue6'), 16), raw=True))]
    elif shape == 'far_pointer':
      # a message longer than 1 KiB: names first written beyond offset 1023 are referred to by 14-bit compression pointers
      d.answers = [rr('x.y', 16, b'T' * 1100), rr('host.zone.example', 2, 'ns.zone.example'), rr('host.zone.example', 1, self.ip('rdata'))]
    elif shape == 'mx': d.answers = [rr('ab.c', 15, 'mail.ab.c')]
    elif shape == 'root': d.questions = [q('')]
    tup = lambda r: (r.name, r.qtype, r.qclass, r.ttl, r.rddata)
    f = dict(id=d.id, qr=d.qr, opcode=d.opcode, aa=True, tc=False, rd=d.rd, ra=False, z=True, ad=False, cd=d.cd, rcode=d.rcode,
             questions=[(x.name, x.qtype, x.qclass) for x in d.questions], answers=[tup(r) for r in d.answers],
             authorities=[tup(r) for r in d.authorities], additional=[tup(r) for r in d.additional])
    l = L(d, f, None); l.minlen = 12
    return l
  def dhcp_opt_tuple(code, o):
    n = type(o).__name__
    if hasattr(o, 'addrs'): return (code, n, list(o.addrs))
    if hasattr(o, 'addr'): return (code, n, o.addr)
    if hasattr(o, 'seconds'): return (code, n, o.seconds)
    if n == 'DHCPMsgTypeOption': return (code, n, o.type)
    if n == 'DHCPOptionOverloadOption': return (code, n, o.value)
    if n == 'DHCPParameterRequestOption': return (code, n, list(o.options))
    if hasattr(o, 'data'): return (code, n, o.data)
    return (code, n, o)
  B.dhcp_opt_tuple = staticmethod(dhcp_opt_tuple)
  def dhcp(self, shape):
    ctx = self.ctx; m = ctx.pox('pox.lib.packet.dhcp')
    d = self.P.dhcp(); d.op = self.i('op', 8); d.htype = self.i('htype', 8); d.hops = self.i('hops', 8); d.xid = self.i('xid', 32); d.secs = self.i('secs', 16)
    d.flags = self.i('bflags', 16); d.ciaddr = self.ip('ci'); d.yiaddr = self.ip('yi'); d.siaddr = self.ip('si'); d.giaddr = self.ip('gi')
    if shape == 'rawhw':
      d.hlen = 16; d.chaddr = ctx.bytes(self.n('chaddr'), 16)
    else:
      d.hlen = 6; d.chaddr = self.mac('chaddr')
    d.sname = env.tobytes(ctx, list(ctx.bytes(self.n('sname'), 3)) + [0] * 61)
    d.file = env.tobytes(ctx, list(ctx.bytes(self.n('file'), 3)) + [0] * 122 + list(ctx.bytes(self.n('filetail'), 3)))
    opts = []
    if shape in ('discover', 'rawhw'):
      opts = [m.DHCPMsgTypeOption(self.i('mtype', 8)), m.DHCPParameterRequestOption([1, 3, 6]), m.DHCPHostNameOption(ctx.bytes(self.n('host'), 3))]
    elif shape == 'offer':
      lt = m.DHCPIPAddressLeaseTimeOption(self.i('lease', 32))
      opts = [m.DHCPMsgTypeOption(2), m.DHCPSubnetMaskOption(self.ip('mask')), m.DHCPRoutersOption([self.ip('gw1'), self.ip('gw2')]), lt,
              m.DHCPServerIdentifierOption(self.ip('sid')), m.DHCPDNSServersOption([self.ip('dns1')])]
    elif shape == 'rawopt':
      r = m.DHCPRawOption(ctx.bytes(self.n('rawopt'), 2)); r.CODE = 200
      opts = [m.DHCPMsgTypeOption(5), r]
    for o in opts: d.add_option(o)
    f = dict(op=d.op, htype=d.htype, hlen=d.hlen, hops=d.hops, xid=d.xid, secs=d.secs, flags=d.flags, ciaddr=d.ciaddr, yiaddr=d.yiaddr, siaddr=d.siaddr,
             giaddr=d.giaddr, chaddr=d.chaddr, sname=d.sname, file=d.file, magic=b'\x63\x82\x53\x63',
             options=sorted(dhcp_opt_tuple(o.CODE, o) for o in opts))
    l = L(d, f, None); l.minlen = 240; l.dhcp = True
    return l
  B.dhcp = dhcp
  B.dns = dns
  B.nd = nd
  B.lldp = lldp
  B.igmp = igmp; B.igmp3 = igmp3; B.vxlan = vxlan; B.gre = gre; B.rip = rip; B.eapol = eapol; B.eap = eap
_more_builders()


def same(ctx, a, b):
  """equality of a parsed field with the assembled one, as a (symbolic) boolean"""
  from symx.core import SymBytes
  if isinstance(a, str) or isinstance(b, str): return a == b
  if isinstance(a, (list, tuple)) or isinstance(b, (list, tuple)):
    if not isinstance(a, (list, tuple)) or not isinstance(b, (list, tuple)) or len(a) != len(b): return False
    return ctx.And(*[same(ctx, x, y) for x, y in zip(a, b)]) if a else True
  if a is None or b is None: return a is None and b is None
  if isinstance(a, (bytes, bytearray, SymBytes)) or isinstance(b, (bytes, bytearray, SymBytes)):
    if not (isinstance(a, (bytes, bytearray, SymBytes)) and isinstance(b, (bytes, bytearray, SymBytes))): return False
    if len(a) != len(b): return False
    return ctx.Eq(a, b)
  if hasattr(a, 'toRaw') or hasattr(b, 'toRaw'):
    if not (hasattr(a, 'toRaw') and hasattr(b, 'toRaw')): return False
    return same(ctx, a.toRaw(), b.toRaw())
  if type(a).__name__ == 'IPAddr6' or type(b).__name__ == 'IPAddr6':
    if type(a).__name__ != type(b).__name__: return False
    return same(ctx, a.raw, b.raw)
  return ctx.Eq(a, b)


def assemble(layers, payload):
  off = 0
  for i, l in enumerate(layers):
    l.off = off; off += (l.hlen or 0)
    if i + 1 < len(layers): l.obj.set_payload(layers[i + 1].obj)
    else: l.obj.set_payload(payload)
  return layers[0].obj


def roundtrip(ctx, b, layers, pay, tag='', repack=True):
  """pack the assembled packet, parse the bytes, compare fields/payload, re-pack; returns the bytes"""
  from symx.core import SymBytes
  P = b.P
  top = assemble(layers, pay)
  raw = top.pack()
  if layers[-1].hlen is None:      # variable-size innermost header (DNS name compression, DHCP option padding): its size is what is left
    layers[-1].hlen = len(raw) - sum(l.hlen for l in layers[:-1]) - len(pay)
    ctx.check(tag + 'innermost header has at least its minimum size', layers[-1].hlen >= layers[-1].minlen)
  ctx.check(tag + 'serialised length is the sum of header lengths and payload', len(raw) == sum(l.hlen for l in layers) + len(pay))
  if len(raw) != sum(l.hlen for l in layers) + len(pay): return raw
  p2 = type(top)(raw=raw if isinstance(raw, (bytes, SymBytes)) else bytes(raw))
  cur = p2
  for i, l in enumerate(layers):
    name = type(l.obj).__name__
    ok = type(cur).__name__ == name and bool(getattr(cur, 'parsed', False))
    ctx.check(tag + 'layer %d parses as %s' % (i, name), ok)
    if not ok: return raw
    for f, v in l.fields.items():
      got = getattr(cur, f)
      if f == 'options' and getattr(l, 'dhcp', False): got = sorted(B.dhcp_opt_tuple(k, o) for k, o in got.items())
      elif f == 'options' and getattr(l, 'nd', False): got = [B.ndopt_tuple(o) for o in got]
      elif f == 'options': got = [(o.type, o.val) for o in got]
      if f.startswith('is_') and not isinstance(got, bool): got = (got != 0)
      if f == 'tlvs': got = [B.tlv_tuple(t) for t in got]
      if f == 'questions': got = [(x.name, x.qtype, x.qclass) for x in got]
      if f in ('answers', 'authorities', 'additional'): got = [(r.name, r.qtype, r.qclass, r.ttl, r.rddata) for r in got]
      if f == 'group_records': got = [(r.type, r.address, list(r.source_addresses), r.aux) for r in got]
      if f == 'entries': got = [(e.address_family, e.route_tag, e.ip, e.netmask, e.next_hop, e.metric) for e in got]
      if f == 'extension_headers': got = [(type(h).__name__, h.next_header_type, h.raw_body) for h in got]
      ctx.check(tag + '%s.%s survives' % (name, f), same(ctx, got, v))
    cur = cur.next
  if cur is None: cur = b''
  ctx.check(tag + 'payload survives', isinstance(cur, (bytes, SymBytes)) and len(cur) == len(pay) and (len(pay) == 0 or ctx.Eq(cur, pay)))
  if repack:
    raw2 = p2.pack()
    ctx.check(tag + 're-serialising the parsed packet reproduces the bytes', len(raw2) == len(raw) and ctx.Eq(raw2, raw))
  ctx.witness('roundtrip')
  return raw


def zeroed(bs, a, n=2):
  bs = list(bs); bs[a:a + n] = [0] * n; return bs


def wire_checks(ctx, b, layers, raw, npay, tag=''):
  """emitted length fields and Internet checksums, read back from the bytes at their wire offsets and compared with values
  computed from the emitted bytes themselves (checksum() over them is RFC 1071 by obligation O1)"""
  pu = b.pu
  raw = list(raw)
  total = len(raw)
  ipl = None; ip6 = None
  for l in layers:
    name = type(l.obj).__name__; o = l.off
    if name == 'ipv4':
      ipl = l
      ctx.check(tag + 'ipv4 total-length field == bytes from the IP header to the end', num(raw[o + 2:o + 4]) == total - o)
      ctx.check(tag + 'ipv4 version/IHL byte', raw[o] == 0x40 + l.hlen // 4)
      ctx.check(tag + 'ipv4 header checksum field == RFC 1071 over the emitted header', num(raw[o + 10:o + 12]) == pu.checksum(env.tobytes(ctx, zeroed(raw[o:o + l.hlen], 10))))
    elif name == 'ipv6':
      ip6 = l
      ctx.check(tag + 'ipv6 payload-length field == bytes after the fixed header (extension headers included)', num(raw[o + 4:o + 6]) == total - o - 40)
      ctx.check(tag + 'ipv6 version nibble', (raw[o] >> 4) == 6)
    elif name in ('udp', 'tcp', 'icmpv6') and ip6 is not None:
      seg = raw[o:]
      proto = {'udp': 17, 'tcp': 6, 'icmpv6': 58}[name]; co = {'udp': 6, 'tcp': 16, 'icmpv6': 2}[name]
      ph = raw[ip6.off + 8:ip6.off + 40] + be(len(seg), 4) + [0, 0, 0, proto]
      c = pu.checksum(env.tobytes(ctx, ph + zeroed(seg, co)))
      if name == 'udp':
        ctx.check(tag + 'udp length field == header + payload', num(raw[o + 4:o + 6]) == total - o)
        c = ctx.Ite(c == 0, 0xffff, c)
      if name == 'tcp': ctx.check(tag + 'tcp data offset == header length incl. padded options', (raw[o + 12] >> 4) * 4 == l.hlen)
      ctx.check(tag + '%s checksum field == RFC 1071 over the IPv6 pseudo-header (upper-layer protocol %d) + segment' % (name, proto), num(raw[o + co:o + co + 2]) == c)
    elif name == 'udp' and ipl is not None:
      seg = raw[o:]
      ctx.check(tag + 'udp length field == header + payload', num(raw[o + 4:o + 6]) == total - o)
      ph = raw[ipl.off + 12:ipl.off + 20] + [0, 17] + be(len(seg), 2)
      c = pu.checksum(env.tobytes(ctx, ph + zeroed(seg, 6)))
      ctx.check(tag + 'udp checksum field == RFC 1071 over pseudo-header + segment (0 sent as 0xffff)', num(raw[o + 6:o + 8]) == ctx.Ite(c == 0, 0xffff, c))
    elif name == 'tcp' and ipl is not None:
      seg = raw[o:]
      ctx.check(tag + 'tcp data offset == header length incl. padded options', (raw[o + 12] >> 4) * 4 == l.hlen)
      ph = raw[ipl.off + 12:ipl.off + 20] + [0, 6] + be(len(seg), 2)
      ctx.check(tag + 'tcp checksum field == RFC 1071 over pseudo-header + segment', num(raw[o + 16:o + 18]) == pu.checksum(env.tobytes(ctx, ph + zeroed(seg, 16))))
    elif name == 'igmp':
      ctx.check(tag + 'igmp checksum field == RFC 1071 over the IGMP message', num(raw[o + 2:o + 4]) == pu.checksum(env.tobytes(ctx, zeroed(raw[o:], 2))))
      recs = l.fields.get('group_records') if hasattr(l, 'fields') else None
      if recs:
        # IGMPv3 membership report (RFC 3376 4.2): number of group records at offset 6, per record: type, aux data length (32-bit words), number of sources - big-endian
        ctx.check(tag + 'igmpv3 number-of-group-records field', num(raw[o + 6:o + 8]) == len(recs))
        ro = o + 8
        for (rt, ra, srcs, aux) in recs:
          ctx.check(tag + 'igmpv3 record: aux length and number-of-sources fields (network byte order)', ctx.And(raw[ro + 1] == len(aux) // 4, num(raw[ro + 2:ro + 4]) == len(srcs)))
          ro += 8 + 4 * len(srcs) + len(aux)
    elif name == 'gre' and getattr(l, 'csum', False):
      ctx.check(tag + 'gre checksum-present bit set', (raw[o] & 0x80) == 0x80)
      ctx.check(tag + 'gre checksum field == RFC 1071 over GRE header + payload', num(raw[o + 4:o + 6]) == pu.checksum(env.tobytes(ctx, zeroed(raw[o:], 4))))
    elif name == 'icmp':
      seg = raw[o:]
      ctx.check(tag + 'icmp checksum field == RFC 1071 over the ICMP message', num(raw[o + 2:o + 4]) == pu.checksum(env.tobytes(ctx, zeroed(seg, 2))))
  ctx.witness('wire')


STACKS = {
  'udp':        lambda b: [b.eth(0x800), b.ipv4(17), b.udp()],
  'udp_opt':    lambda b: [b.eth(0x800), b.ipv4(17, opt=4), b.udp()],
  'vlan_udp':   lambda b: [b.eth(0x8100), b.vlan(0x800), b.ipv4(17), b.udp()],
  'tcp':        lambda b: [b.eth(0x800), b.ipv4(6), b.tcp()],
  'tcp_mss':    lambda b: [b.eth(0x800), b.ipv4(6), b.tcp(('mss',))],
  'tcp_mss_ws': lambda b: [b.eth(0x800), b.ipv4(6), b.tcp(('mss', 'ws'))],
  'tcp_ws':     lambda b: [b.eth(0x800), b.ipv4(6), b.tcp(('ws',))],
  'tcp_ts':     lambda b: [b.eth(0x800), b.ipv4(6), b.tcp(('ts',))],
  'tcp_nnts':   lambda b: [b.eth(0x800), b.ipv4(6, opt=8), b.tcp(('nop', 'nop', 'ts'))],
  'tcp_sack':   lambda b: [b.eth(0x800), b.ipv4(6), b.tcp(('sackperm', 'sack1'))],
  'tcp_unk':    lambda b: [b.eth(0x800), b.ipv4(6), b.tcp(('unk',))],
  'icmp_echo':  lambda b: [b.eth(0x800), b.ipv4(1), b.icmp(8, 0), b.echo()],
  'icmp_reply': lambda b: [b.eth(0x8100), b.vlan(0x800), b.ipv4(1), b.icmp(0), b.echo()],
  'icmp_unreach': lambda b: [b.eth(0x800), b.ipv4(1), b.icmp(3), b.unreach()],
  'icmp_texc':  lambda b: [b.eth(0x800), b.ipv4(1), b.icmp(11), b.time_exceeded()],
  'icmp_other': lambda b: [b.eth(0x800), b.ipv4(1), b.icmp(13)],
  'ip_frag':    lambda b: [b.eth(0x800), b.ipv4(17, frag=True)],
  'ip_other':   lambda b: [b.eth(0x800), b.ipv4(89, opt=4)],
  'udp6':       lambda b: [b.eth(0x86dd), b.ipv6(17), b.udp()],
  'tcp6':       lambda b: [b.eth(0x86dd), b.ipv6(6), b.tcp(('mss',))],
  'echo6':      lambda b: [b.eth(0x86dd), b.ipv6(58), b.icmpv6(128, 0), b.echo6()],
  'echo6r':     lambda b: [b.eth(0x86dd), b.ipv6(58), b.icmpv6(129), b.echo6()],
  'icmp6_other': lambda b: [b.eth(0x86dd), b.ipv6(58), b.icmpv6(200)],
  'ip6_other':  lambda b: [b.eth(0x86dd), b.ipv6(99)],
  'udp6_hop':   lambda b: [b.eth(0x86dd), b.ipv6(17, ('hop',)), b.udp()],
  'udp6_fragdef': lambda b: [b.eth(0x86dd), b.ipv6(17, ('fragdef',)), b.udp()],
  'udp6_dest14': lambda b: [b.eth(0x86dd), b.ipv6(17, ('dest:14',)), b.udp()],
  'tcp6_frag':  lambda b: [b.eth(0x86dd), b.ipv6(6, ('frag',)), b.tcp()],
  'udp6_hop_dest': lambda b: [b.eth(0x86dd), b.ipv6(17, ('hop', 'dest')), b.udp()],
  'tcp6_route_frag_dest': lambda b: [b.eth(0x86dd), b.ipv6(6, ('route', 'frag', 'dest:14')), b.tcp(('mss',))],
  'echo6_hop_route': lambda b: [b.eth(0x86dd), b.ipv6(58, ('hop', 'route')), b.icmpv6(128), b.echo6()],
  'igmp_query': lambda b: [b.eth(0x800), b.ipv4(2), b.igmp(0x11)],
  'igmp_report2': lambda b: [b.eth(0x800), b.ipv4(2, opt=4), b.igmp(0x16)],
  'igmp_leave': lambda b: [b.eth(0x800), b.ipv4(2), b.igmp(0x17)],
  'igmp3_1':    lambda b: [b.eth(0x800), b.ipv4(2), b.igmp3(1, nsrc=1)],
  'igmp3_2aux': lambda b: [b.eth(0x800), b.ipv4(2), b.igmp3(2, nsrc=0, aux=4)],
  'vxlan':      lambda b: [b.eth(0x800), b.ipv4(17), b.udp(dport=4789), b.vxlan(), b.eth(0x9999)],
  'vxlan_novni_arp': lambda b: [b.eth(0x800), b.ipv4(17), b.udp(dport=4789), b.vxlan(False), b.eth(0x806), b.arp()],
  'gre':        lambda b: [b.eth(0x800), b.ipv4(47), b.gre(0x9999)],
  'gre_key_seq': lambda b: [b.eth(0x800), b.ipv4(47), b.gre(0x9999, key=True, seq=True)],
  'gre_csum':   lambda b: [b.eth(0x800), b.ipv4(47), b.gre(0x9999, csum=True)],
  'gre_csum_key_ip': lambda b: [b.eth(0x800), b.ipv4(47), b.gre(0x800, key=True, csum=True), b.ipv4(17), b.udp()],
  'gre_eth':    lambda b: [b.eth(0x800), b.ipv4(47), b.gre(0x6558, seq=True), b.eth(0x9999)],
  'rip1':       lambda b: [b.eth(0x800), b.ipv4(17), b.udp(dport=520), b.rip(1)],
  'rip2':       lambda b: [b.eth(0x800), b.ipv4(17), b.udp(sport=520), b.rip(2)],
  'eap_success': lambda b: [b.eth(0x888e), b.eapol(0), b.eap(3)],
  'eap_request': lambda b: [b.eth(0x888e), b.eapol(0), b.eap(1)],
  'eap_response': lambda b: [b.eth(0x888e), b.eapol(0), b.eap(2)],
  'eapol_start': lambda b: [b.eth(0x888e), b.eapol(1)],
  'eapol_key':  lambda b: [b.eth(0x888e), b.eapol(3)],
  'lldp':       lambda b: [b.eth(0x88cc), b.lldp()],
  'lldp_names': lambda b: [b.eth(0x88cc), b.lldp(('name', 'desc', 'pdesc'))],
  'lldp_caps':  lambda b: [b.eth(0x88cc), b.lldp(('caps',))],
  'lldp_mgmt':  lambda b: [b.eth(0x88cc), b.lldp(('mgmt',))],
  'lldp_org_unknown': lambda b: [b.eth(0x88cc), b.lldp(('org', 'unknown'))],
  'lldp_long_desc': lambda b: [b.eth(0x88cc), b.lldp(('longdesc',))],
  'lldp_long_org': lambda b: [b.eth(0x88cc), b.lldp(('name', 'longorg'))],
  'nd_rs':      lambda b: [b.eth(0x86dd), b.ipv6(58), b.icmpv6(133, 0), b.nd('rs')],
  'nd_rs_slla': lambda b: [b.eth(0x86dd), b.ipv6(58), b.icmpv6(133, 0), b.nd('rs', ('slla',))],
  'nd_ra':      lambda b: [b.eth(0x86dd), b.ipv6(58), b.icmpv6(134, 0), b.nd('ra')],
  'nd_ra_opts': lambda b: [b.eth(0x86dd), b.ipv6(58), b.icmpv6(134, 0), b.nd('ra', ('slla', 'mtu', 'prefix'))],
  'nd_ns':      lambda b: [b.eth(0x86dd), b.ipv6(58), b.icmpv6(135, 0), b.nd('ns')],
  'nd_ns_slla': lambda b: [b.eth(0x86dd), b.ipv6(58), b.icmpv6(135, 0), b.nd('ns', ('slla',))],
  'nd_na_tlla': lambda b: [b.eth(0x86dd), b.ipv6(58), b.icmpv6(136, 0), b.nd('na', ('tlla',))],
  'nd_na_generic': lambda b: [b.eth(0x86dd), b.ipv6(58), b.icmpv6(136, 0), b.nd('na', ('generic',))],
  'texc6':      lambda b: [b.eth(0x86dd), b.ipv6(58), b.icmpv6(3), b.icmp6err('texc')],
  'toobig6':    lambda b: [b.eth(0x86dd), b.ipv6(58), b.icmpv6(2, 0), b.icmp6err('toobig')],
  'unreach6':   lambda b: [b.eth(0x86dd), b.ipv6(58), b.icmpv6(1), b.icmp6err('unreach')],
  'dns_q1':     lambda b: [b.eth(0x800), b.ipv4(17), b.udp(dport=53), b.dns('q1')],
  'dns_q2':     lambda b: [b.eth(0x800), b.ipv4(17), b.udp(dport=53), b.dns('q2')],
  'dns_q1a1':   lambda b: [b.eth(0x800), b.ipv4(17), b.udp(sport=53), b.dns('q1a1')],
  'dns_aaaa_txt': lambda b: [b.eth(0x86dd), b.ipv6(17), b.udp(sport=53), b.dns('aaaa_txt')],
  'dns_names':  lambda b: [b.eth(0x800), b.ipv4(17), b.udp(sport=53), b.dns('cname_ns_ptr')],
  'dns_chain':  lambda b: [b.eth(0x800), b.ipv4(17), b.udp(sport=53), b.dns('cname_chain')],
  'dns_referral': lambda b: [b.eth(0x800), b.ipv4(17), b.udp(sport=53), b.dns('referral')],
  'dns_far':    lambda b: [b.eth(0x800), b.ipv4(17), b.udp(sport=53), b.dns('far_pointer')],
  'dns_mx':     lambda b: [b.eth(0x800), b.ipv4(17), b.udp(sport=53), b.dns('mx')],
  'dns_root':   lambda b: [b.eth(0x800), b.ipv4(17), b.udp(dport=5353), b.dns('root')],
  'dhcp_discover': lambda b: [b.eth(0x800), b.ipv4(17), b.udp(sport=68, dport=67), b.dhcp('discover')],
  'dhcp_offer': lambda b: [b.eth(0x800), b.ipv4(17), b.udp(sport=67, dport=68), b.dhcp('offer')],
  'dhcp_rawhw': lambda b: [b.eth(0x800), b.ipv4(17), b.udp(sport=68, dport=67), b.dhcp('rawhw')],
  'dhcp_rawopt': lambda b: [b.eth(0x800), b.ipv4(17), b.udp(sport=67, dport=68), b.dhcp('rawopt')],
  'dhcp_noopt': lambda b: [b.eth(0x800), b.ipv4(17), b.udp(sport=67, dport=68), b.dhcp('none')],
  'arp':        lambda b: [b.eth(0x806), b.arp()],
  'vlan_arp':   lambda b: [b.eth(0x8100), b.vlan(0x806), b.arp()],
  'rarp':       lambda b: [b.eth(0x8035), b.arp()],
  'mpls':       lambda b: [b.eth(0x8847), b.mpls(1)],
  'mpls2':      lambda b: [b.eth(0x8848), b.mpls(0), b.mpls(1)],
  'llc':        lambda b: [b.eth(0x0040), b.llc()],
  'llc_i':      lambda b: [b.eth(0x0040), b.llc(two_byte_control=True)],
  'snap':       lambda b: [b.eth(0x0040), b.llc(snap='sym')],
  'snap_ip':    lambda b: [b.eth(0x0040), b.llc(snap=(b'\0\0\0', 0x800)), b.ipv4(17), b.udp()],
  'snap_other': lambda b: [b.eth(0x0040), b.llc(snap=(b'\0\0\0', 0x9999))],
  'vlan_other': lambda b: [b.eth(0x8100), b.vlan(0x9999)],
  'eth_other':  lambda b: [b.eth(0x9999)],
}


NO_PAYLOAD = ('dhcp_discover', 'dhcp_offer', 'dhcp_rawhw', 'dhcp_rawopt', 'dhcp_noopt', 'dns_q1', 'dns_q2', 'dns_q1a1', 'dns_aaaa_txt', 'dns_names', 'dns_chain', 'dns_referral', 'dns_mx', 'dns_far', 'dns_root', 'rip1', 'rip2', 'eap_success', 'eapol_start', 'nd_rs', 'nd_rs_slla', 'nd_ra', 'nd_ra_opts', 'nd_ns', 'nd_ns_slla', 'nd_na_tlla', 'nd_na_generic')


def h_stack(ctx, stack, n, repack=True):
  env.quiet()
  b = B(ctx); b.extra = n; b.extra_used = False
  layers = STACKS[stack](b)
  if b.extra_used or stack in NO_PAYLOAD: n = 0      # the innermost header carries no payload (n was used for its own variable part, if any)
  if n > 16:       # MTU-sized payloads: 4 leading and 4 trailing bytes symbolic, the rest a fixed pattern
    pay = env.tobytes(ctx, list(ctx.bytes('payhead', 4)) + [(k * 37 + 11) & 0xff for k in range(n - 8)] + list(ctx.bytes('paytail', 4)))
  else:
    pay = ctx.bytes('pay', n)
  if stack == 'ip_frag': ctx.assume(layers[1].obj.frag != 0)
  if stack in ('mpls', 'mpls2') and n >= 4: pass
  tag = '[%s] ' % stack
  raw = roundtrip(ctx, b, layers, pay, tag=tag, repack=repack)
  if len(raw) == sum(l.hlen for l in layers) + n: wire_checks(ctx, b, layers, raw, n, tag=tag)


def obligations(tier):
  maxn = 8 if tier == "quick" else 24
  cases = []
  big = [] if tier == "quick" else [28, 32, 33, 40, 41, 48, 52, 60, 61, 64]
  for n in big:
    for m in ('plain', 'start', 'skip9', 'skip14', 'skip23', 'skip28'): cases.append(dict(n=n, mode=m))
  for n in range(0, maxn + 1):
    cases.append(dict(n=n, mode='plain'))
    cases.append(dict(n=n, mode='start'))
    for k in sorted(set([0, 1, n // 2 - 1, n // 2, 9, 14])):
      if 0 <= k <= n // 2: cases.append(dict(n=n, mode='skip%d' % k))
  BOUNDS[tier] = dict(checksum_len="0..%d bytes%s, all contents; start 0..0xffff; skip_word in {0,1,n/2-1,n/2,9,14,23,28}" % (maxn, (' and ' + str(big)) if big else ''))
  sc = []
  for st in STACKS:
    for n in ((0, 1, 4) if tier == 'quick' else (0, 1, 2, 5, 8)):
      # re-serialising a parsed GRE packet that carries a checksum makes POX re-verify it (assert checksum(...) == 0): the one's
      # complement identity behind that is decided by z3 only for <= 1 payload byte (obligation O3); larger ones skip the re-pack step
      if st in NO_PAYLOAD and n: continue
      if st.startswith('gre_csum'): sc.append(dict(stack=st, n=n, repack=False))
      else: sc.append(dict(stack=st, n=n))
  if tier != 'quick':
    # frames at the Ethernet MTU (IP datagram of 1499 / 1500 bytes)
    for st, hdrs in (('udp', 28), ('tcp', 40), ('tcp_mss_ws', 48), ('icmp_echo', 28), ('udp6', 48), ('udp_opt', 32), ('ip_other', 24)):
      for total in (1499, 1500): sc.append(dict(stack=st, n=total - hdrs))
  BOUNDS[tier]['stacks'] = sorted(STACKS); BOUNDS[tier]['payload_lengths'] = sorted({c['n'] for c in sc})
  return [Obligation('O1_checksum', h_checksum, cases, witnesses=('returned',), mode='int', solver_timeout_ms=300000 if tier == 'quick' else 900000, path_seconds=1800,
                     desc='packet_utils.checksum == RFC 1071 reference for all buffers up to the bound (odd and even)'),
          Obligation('O3_gre_checksum', h_stack, [dict(stack='gre_csum', n=n) for n in ((0,) if tier == 'quick' else (0, 1))], witnesses=('roundtrip', 'wire'),
                     solver_timeout_ms=600000, path_seconds=900, max_decisions=20000,
                     desc="GRE with a computed checksum: POX re-verifies the checksum when re-serialising (one's complement identity; decided over LIA)"),
          Obligation('O2_stacks', h_stack, sc, witnesses=('roundtrip', 'wire'), max_decisions=20000,
                     desc='header stacks: assembled fields -> bytes -> parse -> equal fields/payload -> identical bytes; emitted length and checksum fields')]
