"""C12 - the datapath applies actions and port rules as the specification prescribes."""
from symx.run import Obligation
from props import env

CLAIM = {
 'technique': "bounded symbolic execution of the real switch action/port code and packet serialisers with z3 (symx, QF_BV) against a byte-level reference",
 'text': "Frames (untagged/802.1Q x IPv4-TCP/UDP/ICMP, ARP, other ethertype) with symbolic addresses, ports, TOS/TTL/id, sequence numbers and payload "
         "bytes are run through the real SoftwareSwitch action pipeline with action lists of 1..3 actions (all 12 standard types, symbolic "
         "arguments); the bytes of every DpPacketOut are compared by z3 with a reference that edits a byte-level copy of the frame in action "
         "order (tag insert/strip, field rewrite at fixed offsets, IPv4/TCP/UDP checksum recomputation). A second obligation makes the 7 config "
         "bits of every port symbolic (set through real port_mods) and proves the set of egress ports for output/IN_PORT/FLOOD/ALL/absent ports, "
         "the NO_RECV/NO_RECV_STP receive rules and the rx/tx packet and byte counters."
         " Also: frames with an IPv4 option word, padded 802.3/LLC frames, frames with a second 802.1Q tag, ICMP errors quoting a datagram, and a port hot-plugged already disabled. O3_table: output:TABLE inside a packet_out list (the entry's rewrites stay with the entry), also after a listener fault; a UDP first fragment under a plain output (known finding).",
 'note': "Trusted: CPython, z3, symx proxies/shims, the reference editor in props/C12.py. Internet checksums in the reference are computed with POX's "
         "own checksum() over the reference's bytes (its equivalence with RFC 1071 is C14's obligation), so checksum *placement and coverage* are "
         "checked here, the summation there. Input frames carry valid checksums and exact lengths.",
}
EXPLANATION = ("Real _process_actions_for_packet/_action_*/_output_packet/rx_packet/_rx_port_mod and ethernet/vlan/ipv4/tcp/udp/icmp/arp parse+pack "
               "executed on symbolic frames and action arguments; byte-level reference; emitted (port, bytes) lists compared by z3 per path.")
FUNCTIONS = ["SoftwareSwitchBase._process_actions_for_packet/_action_* (12)/_output_packet/real_send/rx_packet/_rx_port_mod/_set_port_config_bit",
             "pox.lib.packet ethernet/vlan/ipv4/tcp/udp/icmp/arp parse, hdr, pack, checksum"]
BOUNDS = {}
OUTSIDE = ["action lists longer than 3", "QinQ, IP options beyond one 4-byte word, TCP options", "UDP ports of protocols POX re-parses (67, 68, 53, 5353, 520, 4789)",
           "set_nw_tos arguments whose two ECN bits differ from the packet's (OpenFlow 1.0 is ambiguous about them)", "Ethernet padding behind IP / ARP payloads (802.3 / LLC frames with padding are inside)"]
ASSUMPTIONS = ["reference checksums use pox.lib.packet.packet_utils.checksum (verified against RFC 1071 in C14)"]

SPECIAL_UDP = (67, 68, 53, 5353, 520, 4789)
A_OUT, A_VID, A_PCP, A_STRIP, A_DLSRC, A_DLDST, A_NWSRC, A_NWDST, A_TOS, A_TPSRC, A_TPDST, A_ENQ = range(12)
REWRITES = [A_VID, A_PCP, A_STRIP, A_DLSRC, A_DLDST, A_NWSRC, A_NWDST, A_TOS, A_TPSRC, A_TPDST]


def be(v, n):
  return [(v >> (8 * (n - 1 - i))) & 0xff for i in range(n)]


def num(bs):
  r = 0
  for b in bs: r = (r << 8) | b
  return r


class Frame:
  """byte-level frame model: list of byte terms + layout facts"""
  def __init__(self, b, tagged, l3, l4, ihl=5):
    self.b = list(b); self.tagged = tagged; self.l3 = l3; self.l4 = l4; self.ihl = ihl
  @property
  def l3off(self): return 18 if self.tagged else 14
  @property
  def l4off(self): return self.l3off + 4 * self.ihl
  def copy(self): return Frame(self.b, self.tagged, self.l3, self.l4, self.ihl)


def csum(pu, ctx, data, skip=None):
  return pu.checksum(env.tobytes(ctx, data), 0, skip)


def fix_checksums(ctx, pu, f):
  """recompute IPv4 header checksum and the TCP/UDP pseudo-header checksum in place (what a valid frame carries)"""
  if f.l3 != 'ip': return
  o = f.l3off
  f.b[o + 10:o + 12] = [0, 0]
  c = csum(pu, ctx, f.b[o:o + 4 * f.ihl])      # the header checksum covers the options
  f.b[o + 10:o + 12] = be(c, 2)
  seg = f.b[f.l4off:]
  if f.l4 == 'tcp':
    seg = list(seg); seg[16:18] = [0, 0]
    ph = f.b[o + 12:o + 20] + [0, 6] + be(len(seg), 2)
    c = csum(pu, ctx, ph + seg, 14)
    f.b[f.l4off + 16:f.l4off + 18] = be(c, 2)
  elif f.l4 == 'udp':
    seg = list(seg); seg[6:8] = [0, 0]
    ph = f.b[o + 12:o + 20] + [0, 17] + be(len(seg), 2)
    c = csum(pu, ctx, ph + seg, 9)
    c = ctx.Ite(c == 0, 0xffff, c)
    f.b[f.l4off + 6:f.l4off + 8] = be(c, 2)
  elif f.l4 == 'icmp':
    pass    # ICMP checksum does not cover the IP header: untouched by these actions


def make_frame(ctx, pu, kind, tagged, npay):
  dst = list(ctx.bytes('dst', 6)); src = list(ctx.bytes('src', 6))
  ctx.assume(ctx.Not(ctx.And(dst[0] == 1, dst[1] == 0x80, dst[2] == 0xc2, dst[3] == 0, dst[4] == 0, dst[5] == 0)))    # STP is O2's subject
  b = dst + src
  if tagged:
    tci = ctx.int('tci', 0, 0xffff)
    ctx.assume((tci & 0x1000) == 0)       # CFI 0
    b += [0x81, 0x00] + be(tci, 2)
  pay = list(ctx.bytes('pay', npay))
  # '<kind>_opt': the IPv4 header carries one 4-byte option word (IHL 6; e.g. Router Alert on IGMP/RSVP, any bytes here)
  opts = list(ctx.bytes('ipopt', 4)) if kind.endswith('_opt') else []
  if opts: kind = kind[:-4]
  if kind in ('tcp', 'udp', 'icmp', 'icmperr', 'icmperr_trunc'):
    l4 = 'icmp' if kind.startswith('icmp') else kind
    if kind in ('icmperr', 'icmperr_trunc'):
      # ICMP destination-unreachable / time-exceeded quoting the IPv4 header and the 8-byte UDP header of the offending datagram.
      # 'icmperr': the quoted datagram is self-consistent (total length 28, valid header and UDP checksums), so that re-serialising
      # POX's parse tree is the identity; 'icmperr_trunc': as on a real network - the quoted header keeps the length of the original
      # (longer) datagram and its UDP checksum covers data that is not quoted.
      isp = ctx.int('q_sport', 0, 0xffff); idp = ctx.int('q_dport', 0, 0xffff)
      for v in SPECIAL_UDP: ctx.assume(ctx.And(isp != v, idp != v))
      trunc = kind == 'icmperr_trunc'
      qlen = ctx.int('q_totlen', 29, 1500) if trunc else 28
      iip = [0x45, ctx.int('q_tos', 0, 255)] + be(qlen, 2) + be(ctx.int('q_id', 0, 0xffff), 2) + [0x40, 0, ctx.int('q_ttl', 0, 255), 17, 0, 0] + \
            list(ctx.bytes('q_src', 4)) + list(ctx.bytes('q_dst', 4))
      iip[10:12] = be(pu.checksum(env.tobytes(ctx, iip), 0), 2)
      iu = be(isp, 2) + be(idp, 2) + be(qlen - 20, 2) + [0, 0]
      if trunc:
        iu[6:8] = be(ctx.int('q_udpcsum', 0, 0xffff), 2)
      else:
        c = pu.checksum(env.tobytes(ctx, iip[12:20] + [0, 17] + be(8, 2) + iu), 0, 9)
        iu[6:8] = be(ctx.Ite(c == 0, 0xffff, c), 2)
      t = ctx.Ite(ctx.bool('time_exceeded'), 11, 3)
      body = [t, ctx.int('icmpcode', 0, 15), 0, 0] + list(ctx.bytes('icmprest', 4)) + iip + iu
      body[2:4] = be(pu.checksum(env.tobytes(ctx, body), 0), 2)
      seg = body; proto = 1
    elif kind == 'tcp':
      seg = be(ctx.int('sport', 0, 0xffff), 2) + be(ctx.int('dport', 0, 0xffff), 2) + list(ctx.bytes('seqack', 8)) + [0x50, ctx.int('tflags', 0, 255)] + \
            be(ctx.int('win', 0, 0xffff), 2) + [0, 0] + be(ctx.int('urg', 0, 0xffff), 2) + pay
      proto = 6
    elif kind == 'udp':
      sp = ctx.int('sport', 0, 0xffff); dp = ctx.int('dport', 0, 0xffff)
      for v in SPECIAL_UDP: ctx.assume(ctx.And(sp != v, dp != v))
      seg = be(sp, 2) + be(dp, 2) + be(8 + npay, 2) + [0, 0] + pay
      proto = 17
    elif kind == 'icmp':
      body = [8, 0, 0, 0] + list(ctx.bytes('icmpid', 4)) + pay
      c = pu.checksum(env.tobytes(ctx, body), 0)
      body[2:4] = be(c, 2)
      seg = body; proto = 1
    tos = ctx.int('tos', 0, 255)
    ip = [0x45 + len(opts) // 4, tos] + be(20 + len(opts) + len(seg), 2) + be(ctx.int('ipid', 0, 0xffff), 2) + [0x40, 0] + [ctx.int('ttl', 0, 255), proto, 0, 0] + \
         list(ctx.bytes('ipsrc', 4)) + list(ctx.bytes('ipdst', 4)) + opts
    b += [0x08, 0x00] + ip + seg
    f = Frame(b, tagged, 'ip', l4, 5 + len(opts) // 4)
  elif kind == 'udp_padded':
    # a short IPv4/UDP frame padded to the Ethernet minimum (60 octets): the padding behind the IP datagram belongs to the frame
    sp = ctx.int('sport', 0, 0xffff); dp = ctx.int('dport', 0, 0xffff)
    for v in SPECIAL_UDP: ctx.assume(ctx.And(sp != v, dp != v))
    seg = be(sp, 2) + be(dp, 2) + be(8 + npay, 2) + [0, 0] + pay
    ip = [0x45, ctx.int('tos', 0, 255)] + be(20 + len(seg), 2) + be(ctx.int('ipid', 0, 0xffff), 2) + [0x40, 0] + [ctx.int('ttl', 0, 255), 17, 0, 0] + \
         list(ctx.bytes('ipsrc', 4)) + list(ctx.bytes('ipdst', 4))
    b += [0x08, 0x00] + ip + seg
    npad = 60 - len(b)
    f = Frame(b, tagged, 'ip', 'udp', 5)
    fix_checksums(ctx, pu, f)
    f.b = f.b + list(ctx.bytes('padding', npad))
    return f
  elif kind == 'udp_frag1':
    # the first fragment of a UDP datagram (MF set, offset 0): the UDP length field counts the whole datagram, the checksum covers data that is
    # not in this frame
    sp = ctx.int('sport', 0, 0xffff); dp = ctx.int('dport', 0, 0xffff)
    for v in SPECIAL_UDP: ctx.assume(ctx.And(sp != v, dp != v))
    seg = be(sp, 2) + be(dp, 2) + be(8 + npay + ctx.int('later_fragments', 1, 1400), 2) + be(ctx.int('udpcsum', 0, 0xffff), 2) + pay
    ip = [0x45, ctx.int('tos', 0, 255)] + be(20 + len(seg), 2) + be(ctx.int('ipid', 0, 0xffff), 2) + [0x20, 0] + [ctx.int('ttl', 0, 255), 17, 0, 0] + \
         list(ctx.bytes('ipsrc', 4)) + list(ctx.bytes('ipdst', 4))
    b += [0x08, 0x00] + ip + seg
    f = Frame(b, tagged, 'ip', None, 5)
  elif kind == 'qinq':
    # a second 802.1Q tag behind the outer one (tagged=True gives the outer tag): for the switch the inner tag is payload - strip_vlan removes
    # exactly one tag, set_vlan_* rewrite the outer one
    tci2 = ctx.int('tci2', 0, 0xffff)
    b += [0x81, 0x00] + be(tci2, 2) + [0x08, 0x01] + pay
    f = Frame(b, tagged, 'other', None)
  elif kind == 'llc_pad':
    # 802.3 frame (length field, LLC header, payload) padded to a longer frame, like a BPDU padded to the Ethernet minimum: the length field
    # counts the LLC header and payload only; the padding travels with the frame
    dsap = ctx.int('dsap', 0, 255); ssap = ctx.int('ssap', 0, 255)
    ctx.assume(ctx.Not(ctx.And((dsap & 0xfe) == 0xaa, (ssap & 0xfe) == 0xaa)))
    b += be(3 + npay, 2) + [dsap, ssap, 0x03] + pay + list(ctx.bytes('padding', 8))
    f = Frame(b, tagged, 'other', None)
  elif kind == 'arp':
    b += [0x08, 0x06] + [0, 1, 8, 0, 6, 4, 0, ctx.int('arpop', 1, 2)] + list(ctx.bytes('arpbody', 20))
    f = Frame(b, tagged, 'arp', None)
  else:
    et = ctx.int('ethertype', 0x0600, 0xffff)
    for v in (0x0800, 0x0806, 0x8035, 0x8100, 0x88cc, 0x888e, 0x8847, 0x8848, 0x86dd): ctx.assume(et != v)
    b += be(et, 2) + pay
    f = Frame(b, tagged, 'other', None)
  fix_checksums(ctx, pu, f)
  return f


def make_action(ctx, of, addrs, code, i, f):
  """-> (pox action, reference descriptor)"""
  if code == A_OUT:
    port = ctx.int('outport%d' % i, 1, 4)
    return of.ofp_action_output(port=port), ('out', port)
  if code == A_VID:
    v = ctx.int('vid%d' % i, 0, 4095); return of.ofp_action_vlan_vid(vlan_vid=v), ('vid', v)
  if code == A_PCP:
    v = ctx.int('pcp%d' % i, 0, 7); return of.ofp_action_vlan_pcp(vlan_pcp=v), ('pcp', v)
  if code == A_STRIP: return of.ofp_action_strip_vlan(), ('strip',)
  if code in (A_DLSRC, A_DLDST):
    a = ctx.bytes('mac%d' % i, 6)
    return of.ofp_action_dl_addr(type=4 if code == A_DLSRC else 5, dl_addr=addrs.EthAddr(a)), ('dl', 6 if code == A_DLSRC else 0, list(a))
  if code in (A_NWSRC, A_NWDST):
    a = ctx.bytes('ip%d' % i, 4)
    return of.ofp_action_nw_addr(type=6 if code == A_NWSRC else 7, nw_addr=addrs.IPAddr(a)), ('nw', 12 if code == A_NWSRC else 16, list(a))
  if code == A_TOS:
    v = ctx.int('tosv%d' % i, 0, 255)
    return of.ofp_action_nw_tos(nw_tos=v), ('tos', v)
  if code in (A_TPSRC, A_TPDST):
    v = ctx.int('tp%d' % i, 0, 0xffff)
    return of.ofp_action_tp_port(type=9 if code == A_TPSRC else 10, tp_port=v), ('tp', 0 if code == A_TPSRC else 2, v)
  if code == A_ENQ:
    port = ctx.int('enqport%d' % i, 1, 4)
    return of.ofp_action_enqueue(port=port, queue_id=ctx.int('q%d' % i, 0, 0xffffffff)), ('out', port)
  raise KeyError(code)


def ref_apply(ctx, pu, f, d):
  """apply one rewrite descriptor to the byte-level frame (OpenFlow 1.0 sec. 3.3 / 5.2.4)"""
  k = d[0]
  if k == 'vid':
    if f.tagged:
      tci = num(f.b[14:16]); f.b[14:16] = be((tci & 0xf000) | d[1], 2)
    else:
      f.b[12:12] = [0x81, 0x00] + be(d[1], 2); f.tagged = True
  elif k == 'pcp':
    if f.tagged:
      tci = num(f.b[14:16]); f.b[14:16] = be((tci & 0x1fff) | (d[1] << 13), 2)
    else:
      f.b[12:12] = [0x81, 0x00] + be(d[1] << 13, 2); f.tagged = True
  elif k == 'strip':
    if f.tagged:
      del f.b[12:16]
      # a second (inner) 802.1Q tag is now the outermost one: the frame is still tagged
      f.tagged = isinstance(f.b[12], int) and isinstance(f.b[13], int) and f.b[12:14] == [0x81, 0x00]
  elif k == 'dl':
    f.b[d[1]:d[1] + 6] = d[2]
  elif k == 'nw':
    if f.l3 == 'ip':
      o = f.l3off + d[1]; f.b[o:o + 4] = d[2]; fix_checksums(ctx, pu, f)
  elif k == 'tos':
    if f.l3 == 'ip':
      f.b[f.l3off + 1] = d[1]; fix_checksums(ctx, pu, f)
  elif k == 'tp':
    if f.l3 == 'ip' and f.l4 in ('tcp', 'udp'):
      o = f.l4off + d[1]; f.b[o:o + 2] = be(d[2], 2); fix_checksums(ctx, pu, f)


def h_rewrite(ctx, kind, tagged, codes, npay=2):
  env.get_core()
  of = ctx.pox('pox.openflow.libopenflow_01'); swm = ctx.pox('pox.datapaths.switch'); pkt = ctx.pox('pox.lib.packet')
  addrs = ctx.pox('pox.lib.addresses'); pu = ctx.pox('pox.lib.packet.packet_utils')
  sw = swm.SoftwareSwitch(dpid=1, ports=4, max_buffers=0)
  outs = []
  sw.addListenerByName('DpPacketOut', lambda e: outs.append((e.port.port_no, e.packet.pack())))
  f = make_frame(ctx, pu, kind, tagged, npay)
  raw = env.tobytes(ctx, f.b)
  in_port = 4
  acts = []; descs = []
  for i, c in enumerate(codes):
    a, d = make_action(ctx, of, addrs, c, i, f)
    if d[0] == 'tos' and f.l3 == 'ip':
      ctx.assume((d[1] & 3) == (f.b[f.l3off + 1] & 3))      # ECN bits: see OUTSIDE
    if d[0] == 'out': ctx.assume(d[1] != in_port)
    acts.append(a); descs.append(d)
  eth = pkt.ethernet(raw)
  sw._process_actions_for_packet(acts, eth, in_port)
  cur = f.copy(); expect = []
  for d in descs:
    if d[0] == 'out': expect.append((d[1], list(cur.b)))
    else: ref_apply(ctx, pu, cur, d)
  ctx.check('number of emitted frames', len(outs) == len(expect))
  tag = '[icmp-quote-truncated] ' if kind == 'icmperr_trunc' else '[udp-first-fragment] ' if kind == 'udp_frag1' else '[ip-padding] ' if kind == 'udp_padded' else ''
  for (p, got), (ep, eb) in zip(outs, expect):
    ctx.check('egress port', p == ep)
    ctx.check(tag + 'emitted length', len(got) == len(eb))
    if len(got) == len(eb): ctx.check(tag + 'emitted bytes == reference edit of the frame', ctx.Eq(got, env.tobytes(ctx, eb)))
  for p in (1, 2, 3, 4):
    st = sw.port_stats[p]
    mine = [eb for ep, eb in expect if bool(ep == p)]
    ctx.check(('[udp-first-fragment] ' if kind == 'udp_frag1' else '[ip-padding] ' if kind == 'udp_padded' else '') + 'tx counters equal the frames and bytes actually transmitted',
              ctx.And(st.tx_packets == len(mine), st.tx_bytes == sum(len(eb) for eb in mine)))
  ctx.witness('done')


PORT_BITS = dict(PORT_DOWN=1, NO_STP=2, NO_RECV=4, NO_RECV_STP=8, NO_FLOOD=16, NO_FWD=32, NO_PACKET_IN=64)


def h_ports(ctx, outkind, thorough=False):
  env.get_core()
  of = ctx.pox('pox.openflow.libopenflow_01'); swm = ctx.pox('pox.datapaths.switch'); pkt = ctx.pox('pox.lib.packet')
  sw = swm.SoftwareSwitch(dpid=1, ports=4, max_buffers=0)
  sent = []
  class Conn:
    def send(c, msg): sent.append(msg)
    def set_message_handler(c, h): pass
  sw.set_connection(Conn())
  outs = []
  sw.addListenerByName('DpPacketOut', lambda e: outs.append((e.port.port_no, e.packet.pack())))
  in_port_c = 1
  cfg = {}
  # symbolic config bits, set through real port_mods: ingress port 1 gets the receive bits, ports 2 and 3 the transmit/flood bits;
  # port 4 keeps its default config (the full 2^7 x 4 cross product is outside the bound)
  masks = {1: PORT_BITS['NO_RECV'] | PORT_BITS['NO_RECV_STP'] | PORT_BITS['NO_FWD'] | PORT_BITS['PORT_DOWN'],
           2: PORT_BITS['PORT_DOWN'] | PORT_BITS['NO_FLOOD'] | PORT_BITS['NO_FWD'],
           3: PORT_BITS['PORT_DOWN'] | PORT_BITS['NO_FLOOD'] | PORT_BITS['NO_FWD'] | PORT_BITS['NO_PACKET_IN'], 4: 0}
  for p in (1, 2, 3, 4):
    c = ctx.int('cfg%d' % p, 0, 127) & masks[p]
    cfg[p] = c
    if masks[p] == 0: continue
    pm = of.ofp_port_mod(port_no=p, hw_addr=sw.ports[p].hw_addr, config=c, mask=masks[p])
    _, pm2 = of.ofp_port_mod.unpack_new(pm.pack())
    sw.rx_message(sw._connection, pm2)
    ctx.check('port config applied', (sw.ports[p].config & masks[p]) == c)
    ctx.check('PORT_DOWN implies LINK_DOWN state', ((sw.ports[p].state & 1) != 0) == ((c & 1) != 0))
  # port 5 is hot-plugged (add_port) with its configuration already in place - administratively down / not forwarding / not flooding before
  # any port_mod was ever sent for it (its state word says nothing about the link)
  addrs = ctx.pox('pox.lib.addresses')
  m5 = PORT_BITS['PORT_DOWN'] | PORT_BITS['NO_FWD'] | (PORT_BITS['NO_FLOOD'] if thorough else 0)
  cfg[5] = ctx.int('cfg5', 0, 127) & m5
  sw.add_port(of.ofp_phy_port(port_no=5, hw_addr=addrs.EthAddr(b'\x02\x00\x00\x00\x05\x05'), name='hot5', config=cfg[5], state=0))
  in_port = in_port_c
  stp = ctx.bool('stp')
  dst = [1, 0x80, 0xc2, 0, 0, 0] if stp else [2, 0, 0, 0, 0, 7]
  body = list(ctx.bytes('body', 4))
  raw = env.tobytes(ctx, dst + [2, 0, 0, 0, 0, 8] + [0x08, 0x01] + body)
  if outkind == 'port': outp = ctx.int('outp', 1, 6)            # 6 does not exist
  else: outp = dict(in_port=0xfff8, flood=0xfffb, all=0xfffc)[outkind]
  fm = of.ofp_flow_mod(command=0, priority=1, actions=[of.ofp_action_output(port=outp)])
  sw.rx_message(sw._connection, of.ofp_flow_mod.unpack_new(fm.pack())[1])
  before = {p: (sw.port_stats[p].rx_packets, sw.port_stats[p].rx_bytes, sw.port_stats[p].tx_packets, sw.port_stats[p].tx_bytes) for p in (1, 2, 3, 4, 5)}
  sw.rx_packet(pkt.ethernet(raw), int(in_port))
  ip = int(in_port)
  def bit(p, name): return (cfg[p] & PORT_BITS[name]) != 0
  accepted = ctx.Or(ctx.And(stp, ctx.Not(bit(ip, 'NO_RECV_STP'))), ctx.And(not stp, ctx.Not(bit(ip, 'NO_RECV'))))
  def can_tx(p): return ctx.Not(ctx.Or(bit(p, 'NO_FWD'), bit(p, 'PORT_DOWN')))
  exp = []
  if bool(accepted):
    ctx.witness('accepted')
    if outkind == 'port':
      op = int(outp)
      if op != ip and op in cfg and bool(can_tx(op)): exp = [op]
    elif outkind == 'in_port':
      if bool(can_tx(ip)): exp = [ip]
    else:
      for p in (1, 2, 3, 4, 5):
        if p == ip: continue
        if outkind == 'flood' and bool(bit(p, 'NO_FLOOD')): continue
        if bool(can_tx(p)): exp.append(p)
  else:
    ctx.witness('refused')
  ctx.check('egress ports', sorted(p for p, _ in outs) == sorted(exp))
  for p, b in outs: ctx.check('frame unchanged', ctx.Eq(b, raw))
  for p in (1, 2, 3, 4, 5):
    rxp, rxb, txp, txb = before[p]
    st = sw.port_stats[p]
    acc = bool(accepted) and p == ip
    ctx.check('rx counters', st.rx_packets == rxp + (1 if acc else 0) and st.rx_bytes == rxb + (len(raw) if acc else 0))
    n = sum(1 for q, _ in outs if q == p)
    ctx.check('tx counters', st.tx_packets == txp + n and st.tx_bytes == txb + n * len(raw))
  ctx.check('no packet-in (a flow matched)', all(not isinstance(m, of.ofp_packet_in) for m in sent))


def h_table(ctx, fault):
  """output:OFPP_TABLE in a packet_out: [set_vlan_vid?, output:TABLE, set_dl_src, output:2] with a table entry (in_port 1 -> [set_dl_dst?, output:3]).  The table
  works on the frame as modified so far; what the entry does to it stays with the entry (the rest of the list continues from the frame the list had);
  fault: a DpPacketOut listener fails on a solver-chosen emission of a first packet_out - a second one afterwards is forwarded as if nothing had happened"""
  env.get_core()
  of = ctx.pox('pox.openflow.libopenflow_01'); swm = ctx.pox('pox.datapaths.switch'); pkt = ctx.pox('pox.lib.packet'); addrs = ctx.pox('pox.lib.addresses')
  sw = swm.SoftwareSwitch(dpid=1, ports=4, max_buffers=0)
  sent = []
  class Conn:
    def send(c, msg): sent.append(msg)
    def set_message_handler(c, h): pass
  sw.set_connection(Conn())
  outs = []
  failat = [None]
  class ListenerFault(Exception): pass
  def listener(e):
    outs.append((e.port.port_no, e.packet.pack()))
    if failat[0] is not None and len(outs) == failat[0]: raise ListenerFault()
  sw.addListenerByName('DpPacketOut', listener)
  def rx(msg):
    try: sw.rx_message(sw._connection, type(msg).unpack_new(msg.pack())[1])
    except ListenerFault: ctx.witness('fault')          # (OFConnection.read contains handler exceptions; the harness stands in for it)
  entry_rewrites = bool(ctx.bool('entry_rewrites')); pre_tag = bool(ctx.bool('tag_first'))
  edst = list(ctx.bytes('entry_dst', 6)); nsrc = list(ctx.bytes('new_src', 6)); vid = ctx.int('vid', 0, 4095)
  eacts = ([of.ofp_action_dl_addr.set_dst(addrs.EthAddr(env.tobytes(ctx, edst)))] if entry_rewrites else []) + [of.ofp_action_output(port=3)]
  rx(of.ofp_flow_mod(command=0, priority=7, match=of.ofp_match(in_port=1), actions=eacts))
  def frame(tag):
    pay = list(ctx.bytes('pay' + tag, 6))
    return [2, 0, 0, 0, 0, 9], [2, 0, 0, 0, 0, 1], [0x08, 0x01] + pay
  def expected(dst, src, rest):
    mid = [0x81, 0x00, vid >> 8, vid & 255] if pre_tag else []
    at_table = (edst if entry_rewrites else dst) + src + mid + rest
    after = dst + nsrc + mid + rest
    return [(3, env.tobytes(ctx, at_table)), (2, env.tobytes(ctx, after))]
  def po(dst, src, rest):
    acts = ([of.ofp_action_vlan_vid(vlan_vid=vid)] if pre_tag else []) + [of.ofp_action_output(port=of.OFPP_TABLE),
            of.ofp_action_dl_addr.set_src(addrs.EthAddr(env.tobytes(ctx, nsrc))), of.ofp_action_output(port=2)]
    return of.ofp_packet_out(in_port=1, data=env.tobytes(ctx, dst + src + rest), actions=acts)
  if fault:
    failat[0] = 1 + int(ctx.int('fail_at_emission', 0, 1))
    rx(po(*frame('0')))
    failat[0] = None; del outs[:]
  d, s_, r = frame('1')
  rx(po(d, s_, r))
  exp = expected(d, s_, r)
  ctx.check('two frames emitted: by the table entry on port 3, by the rest of the list on port 2', len(outs) == 2 and [o[0] for o in outs] == [3, 2])
  if len(outs) == 2:
    ctx.check('the table saw the frame as modified so far and applied its entry', ctx.Eq(outs[0][1], exp[0][1]))
    ctx.check("the rest of the list continues from the list's own frame", ctx.Eq(outs[1][1], exp[1][1]))
  ctx.check('no packet-in, no error', sent == [])
  ctx.witness('done')


def obligations(tier):
  thorough = tier != 'quick'
  cases = []
  kinds = [('tcp', False), ('udp', False), ('icmp', False), ('arp', False), ('other', False), ('tcp', True), ('udp', True), ('other', True), ('arp', True), ('icmp', True)]
  # single rewrite then output, for every frame kind x every rewrite; plus enqueue
  for (k, t) in kinds:
    for c in REWRITES:
      if not thorough and t and k in ('arp', 'icmp'): continue
      cases.append(dict(kind=k, tagged=t, codes=[c, A_OUT]))
    cases.append(dict(kind=k, tagged=t, codes=[A_OUT]))
    cases.append(dict(kind=k, tagged=t, codes=[A_ENQ]))
  # stacked 802.1Q tags
  for c in (A_STRIP, A_VID) + ((A_PCP, A_DLDST) if thorough else ()): cases.append(dict(kind='qinq', tagged=True, codes=[c, A_OUT]))
  cases.append(dict(kind='qinq', tagged=True, codes=[A_STRIP, A_OUT, A_STRIP, A_OUT] if thorough else [A_OUT]))
  # padded 802.3 / LLC frames
  for c in (A_DLDST, A_VID) + ((A_DLSRC, A_STRIP) if thorough else ()): cases.append(dict(kind='llc_pad', tagged=False, codes=[c, A_OUT]))
  cases.append(dict(kind='llc_pad', tagged=False, codes=[A_OUT]))
  if thorough: cases.append(dict(kind='llc_pad', tagged=True, codes=[A_OUT]))
  # IPv4 options present (IHL 6): the header checksum covers them, the transport header starts after them
  for k in ('udp_opt', 'tcp_opt') + (('icmp_opt',) if thorough else ()):
    for c in (A_NWDST, A_TOS, A_TPSRC) + ((A_NWSRC, A_TPDST, A_DLDST, A_VID) if thorough else ()): cases.append(dict(kind=k, tagged=False, codes=[c, A_OUT]))
    cases.append(dict(kind=k, tagged=False, codes=[A_OUT]))
  # ICMP errors quoting a UDP datagram: the quoted header is payload - no action may touch it (set_tp_* in particular)
  for t in ((False, True) if thorough else (False,)):
    for c in (A_TPSRC, A_TPDST, A_NWSRC, A_NWDST, A_TOS) + ((A_DLSRC, A_VID, A_STRIP) if thorough else ()):
      cases.append(dict(kind='icmperr', tagged=t, codes=[c, A_OUT]))
    cases.append(dict(kind='icmperr', tagged=t, codes=[A_OUT]))
  cases.append(dict(kind='icmperr_trunc', tagged=False, codes=[A_OUT]))
  cases.append(dict(kind='udp_frag1', tagged=False, codes=[A_OUT]))
  cases.append(dict(kind='udp_padded', tagged=False, codes=[A_OUT]))
  # pairs: output between rewrites (snapshot semantics), and rewrite pairs
  pairs = [(a, b) for a in REWRITES for b in REWRITES]
  for i, (a, b) in enumerate(pairs):
    if not thorough and i % 2: continue
    k, t = kinds[i % 3] if not thorough else kinds[i % len(kinds)]
    t = t or (i % 2 == 1)
    cases.append(dict(kind=k, tagged=t, codes=[a, A_OUT, b, A_OUT] if thorough else [a, b, A_OUT]))
    if thorough: cases.append(dict(kind=k, tagged=not t, codes=[a, b, A_OUT]))
  BOUNDS[tier] = dict(frames="untagged/tagged x {tcp,udp,icmp,arp,other}; payload 2 bytes; all addresses/ports/tos/ttl/id/seq symbolic",
                      action_lists="1 rewrite + output for all 10 rewrites x frame kinds; sampled (quick) / all (thorough) rewrite pairs; enqueue",
                      ports="4 ports; symbolic config bits via port_mod: ingress port {NO_RECV,NO_RECV_STP,NO_FWD,PORT_DOWN}, two egress ports {PORT_DOWN,NO_FLOOD,NO_FWD(,NO_PACKET_IN)}, output to port/IN_PORT/FLOOD/ALL/absent port")
  # the reference edit recomputes checksums with POX's own checksum(): the lemma that this routine is RFC 1071 (C14 O1) is discharged here too,
  # for every buffer of 0..6 bytes (odd and even; C14 goes further)
  from props.C14 import h_checksum
  lemma = [dict(n=n, mode=m) for n in range(0, 7) for m in ('plain', 'start')] + [dict(n=6, mode='skip%d' % k) for k in (0, 1, 2, 3)]
  return [
    Obligation('O0_checksum_lemma', h_checksum, lemma, witnesses=('returned',), mode='int', solver_timeout_ms=300000, path_seconds=1800,
               desc='packet_utils.checksum == RFC 1071 reference (the routine the reference edit uses to recompute checksums)'),
    Obligation('O1_rewrite', h_rewrite, cases, witnesses=('done',), max_decisions=20000,
               desc='emitted bytes == byte-level reference edit for action lists over all 12 action types'),
    Obligation('O3_table', h_table, [dict(fault=False), dict(fault=True)], witnesses=('done', 'fault'), max_decisions=20000,
               desc='output:TABLE inside a packet_out action list, also after a fault in a DpPacketOut listener during an earlier one'),
    Obligation('O2_ports', h_ports, [dict(outkind=k, thorough=thorough) for k in ('port', 'in_port', 'flood', 'all')], witnesses=('accepted', 'refused'), max_decisions=20000,
               desc='port config bits (via port_mod) x output kinds: egress set, receive rules, counters'),
  ]
