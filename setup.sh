#!/bin/sh
# builds /verif/.venv from /venv's interpreter and the offline wheelhouse (no network)
set -e
HERE="$(cd "$(dirname "$0")" && pwd)"
if [ -x "$HERE/.venv/bin/python" ] && "$HERE/.venv/bin/python" -c "import z3" 2>/dev/null; then exit 0; fi
rm -rf "$HERE/.venv"
/venv/bin/python -m venv "$HERE/.venv"
SP="$("$HERE/.venv/bin/python" -c 'import sysconfig; print(sysconfig.get_paths()["purelib"])')"
echo "import site; site.addsitedir('/venv/lib/python3.12/site-packages')" > "$SP/_overlay.pth"
PIP_NO_INDEX=1 "$HERE/.venv/bin/python" -m pip install -q --no-index --find-links /opt/veriftools/wheels z3-solver
"$HERE/.venv/bin/python" -c "import z3; print('z3', z3.get_version_string())"
